package sim

// C06 (reference selection), C07 (reference tallies), C15 (refgroup
// configuration read faithfully).

import (
	"fmt"
	"sort"
	"strings"

	"pgregory.net/rapid"
)

type refsParams struct {
	RefOpts []RefOpt `json:"refopts"`
	Groups  []string `json:"groups,omitempty"` // symbols the generator defined (informational)
}

// manyRefsWorld draws a world with few objects and many look-alike references.
func manyRefsWorld(g G, exotic bool) *World {
	opts := DefaultGen
	opts.MaxBlobs, opts.MaxTrees, opts.MaxCommits, opts.MaxTags, opts.MaxEntries = 3, 3, 5, 3, 3
	opts.MaxRefs = 14
	opts.ExtraHeaders = false
	opts.ExoticRefNames = exotic
	opts.NameStyle = 0
	return GenWorld(g, opts)
}

func parseShowRefs(stderr []byte) (map[string]bool, []string, bool) {
	marks := map[string]bool{}
	var order []string
	lines := strings.Split(string(stderr), "\n")
	seenHeader := false
	for _, l := range lines {
		if !seenHeader {
			if strings.HasPrefix(l, "References (included references marked with '+')") {
				seenHeader = true
			}
			continue
		}
		if strings.HasPrefix(l, "+ ") {
			marks[l[2:]] = true
			order = append(order, l[2:])
		} else if strings.HasPrefix(l, "  ") {
			marks[l[2:]] = false
			order = append(order, l[2:])
		}
	}
	return marks, order, seenHeader
}

func judgeRefs(c *Ctx, sc *Scenario, prop string) *Violation {
	var p refsParams
	decodeParams(sc, &p)
	w := sc.World
	site, err := Materialise(w)
	if err != nil {
		c.Stats.Trouble = append(c.Stats.Trouble, "materialise: "+err.Error())
		return nil
	}
	defer site.Close()
	if !verifyRoots(c, site, sc.Inv.Roots) {
		return nil
	}
	gm, rawcfg, err := groupModelFor(site)
	if err != nil {
		c.Stats.Probe("git-config-rejects-generated-config")
		return nil
	}
	if bad := gm.Undefined(); len(bad) > 0 {
		c.Stats.Probe("generated-config-has-rule-less-leaf-group (skipped)")
		return nil
	}
	// every regexp in the model must compile under whole-string anchoring
	for _, s := range gm.Order {
		for _, r := range gm.Groups[s].Rules {
			if r.Regexp {
				if _, err := regexpFullMatch(r.Pattern, "x"); err != nil {
					c.Stats.Probe("generated-regexp-invalid (skipped)")
					return nil
				}
			}
		}
	}
	for _, o := range p.RefOpts {
		if o.Kind == "regexp" {
			if _, err := regexpFullMatch(o.Pattern, "x"); err != nil {
				c.Stats.Probe("generated-regexp-invalid (skipped)")
				return nil
			}
		}
		if o.Kind == "group" {
			if _, ok := gm.Groups[o.Pattern]; !ok {
				c.Stats.Probe("generated-option-names-unknown-group (skipped)")
				return nil
			}
		}
	}
	sel := &Selection{Opts: p.RefOpts, HasRoots: len(sc.Inv.Roots) > 0, GM: gm}
	refs := w.AllRefs()
	pfx := prop + "/"

	res := RunA(c.T, c.H, sc, site)
	c.Stats.AddResult(res)
	c.Stats.Evaluations++
	if res.Panic != "" {
		return &Violation{pfx + "panic", firstLines(res.Panic, 8)}
	}
	if res.Hang {
		return &Violation{pfx + "hang", ""}
	}
	if res.Failed {
		return &Violation{pfx + "run-failed", fmt.Sprintf("args %q: %s\nconfig --list -z: %q", sc.Inv.Args, res.Err, firstBytes(rawcfg, 600))}
	}

	// (1) which references are traversed: --show-refs marks
	if hasArg(sc.Inv.Args, "--show-refs") {
		marks, order, ok := parseShowRefs(res.Stderr)
		if !ok {
			return &Violation{pfx + "show-refs-missing", string(firstBytes(res.Stderr, 300))}
		}
		if len(order) != len(refs) {
			return &Violation{pfx + "show-refs-count", fmt.Sprintf("%d references listed, repository has %d", len(order), len(refs))}
		}
		for _, r := range refs {
			m, ok := marks[r.Name]
			if !ok {
				return &Violation{pfx + "show-refs-missing-ref", r.Name}
			}
			if m != sel.Walked(r.Name) {
				return &Violation{pfx + "selection", fmt.Sprintf("reference %q: traversed=%v, the last-matching-rule semantics say %v; options %s", r.Name, m, sel.Walked(r.Name), describeOpts(p.RefOpts))}
			}
		}
	}
	// (2) what is fed to rev-list
	roots := walkedRoots(w, sel, sc.Inv.Roots)
	wantRoots, gotRoots := map[string]bool{}, map[string]bool{}
	for _, r := range roots {
		wantRoots[r] = true
	}
	for _, r := range res.Run.RevListStdin {
		gotRoots[r] = true
	}
	if d := setDiff(wantRoots, gotRoots); d != "" && !sc.Plan.RealPeers {
		return &Violation{pfx + "selection:roots-fed-to-rev-list", d + "; options " + describeOpts(p.RefOpts)}
	}
	// (3) census restricted accordingly, and the tallies
	ex := w.Expect(roots)
	var got map[string]interface{}
	isV2 := hasArg(sc.Inv.Args, "--json-version=2")
	isJSON := hasArg(sc.Inv.Args, "--json") || hasArg(sc.Inv.Args, "-j")
	if isJSON {
		got, err = ParseJSONObject(res.Stdout)
		if err != nil {
			return &Violation{pfx + "bad-json", err.Error()}
		}
	}
	// expected tallies
	wantTally := map[string]uint64{}
	for _, r := range refs {
		for _, s := range sel.Tally(r.Name) {
			wantTally[s]++
		}
	}
	switch {
	case isJSON && !isV2:
		if bad := ex.CompareV1(got, CensusFields); len(bad) > 0 {
			return &Violation{pfx + "census", strings.Join(bad, "; ")}
		}
		if n, ok := jsonUint(got["reference_count"]); !ok || n != uint64(len(refs)) {
			return &Violation{pfx + "reference-count", fmt.Sprintf("reference_count=%v, repository has %d references", got["reference_count"], len(refs))}
		}
		rg, _ := got["reference_groups"].(map[string]interface{})
		gotTally := map[string]uint64{}
		for k, v := range rg {
			n, ok := jsonUint(v)
			if !ok {
				return &Violation{pfx + "tally", fmt.Sprintf("reference_groups[%q] = %v", k, v)}
			}
			gotTally[k] = n
		}
		if d := tallyDiff(wantTally, gotTally); d != "" {
			return &Violation{pfx + "tally", d + "; options " + describeOpts(p.RefOpts) + fmt.Sprintf("; config %q", firstBytes(rawcfg, 500))}
		}
	case isJSON && isV2:
		for s, n := range wantTally {
			if s == "" {
				continue
			}
			it, ok := got["refgroup."+s].(map[string]interface{})
			if !ok {
				return &Violation{pfx + "tally-v2", fmt.Sprintf("JSON v2 has no item refgroup.%s (expected %d)", s, n)}
			}
			if v, ok := jsonUint(it["value"]); !ok || v != n {
				return &Violation{pfx + "tally-v2", fmt.Sprintf("refgroup.%s value %v, expected %d", s, it["value"], n)}
			}
		}
		for k := range got {
			if strings.HasPrefix(k, "refgroup.") {
				if _, ok := wantTally[k[len("refgroup."):]]; !ok {
					return &Violation{pfx + "tally-v2", fmt.Sprintf("unexpected item %s", k)}
				}
			}
		}
		if it, ok := got["referenceCount"].(map[string]interface{}); ok {
			if v, ok := jsonUint(it["value"]); !ok || v != uint64(len(refs)) {
				return &Violation{pfx + "reference-count", fmt.Sprintf("referenceCount %v, repository has %d", it["value"], len(refs))}
			}
		} else {
			return &Violation{pfx + "reference-count", "JSON v2 has no referenceCount"}
		}
	default:
		// table with --verbose: rows under References
		tb, perr := ParseTable(res.Stdout)
		if perr != nil {
			return &Violation{pfx + "table", perr.Error() + "\n" + string(firstBytes(res.Stdout, 1500))}
		}
		var wantRows []string
		wantRows = append(wantRows, fmt.Sprintf("0|Count|%d", len(refs)))
		for _, s := range gm.DisplayOrder() {
			if s == "" {
				continue
			}
			n, ok := wantTally[s]
			if !ok {
				continue
			}
			wantRows = append(wantRows, fmt.Sprintf("%d|%s|%d", strings.Count(s, ".")+1, gm.DisplayName(s), n))
		}
		var gotRows []string
		for _, r := range tb.Rows {
			if r.Section == "Overall repository size" && len(r.Path) >= 1 && r.Path[0] == "References" && r.IsItem {
				// reference-group rows never carry a citation: a trailing "[n]" is part of the display name
				gotRows = append(gotRows, fmt.Sprintf("%d|%s|%s", r.Depth-2, r.RawName, r.Value))
			}
		}
		if strings.Join(wantRows, "\n") != strings.Join(gotRows, "\n") {
			return &Violation{pfx + "tally-table", fmt.Sprintf("rows under References:\n got  %q\n want %q", gotRows, wantRows)}
		}
	}
	// non-trivial: at least one ref walked, one not, and (C07/C15) a configured group tallied
	nw := 0
	for _, r := range refs {
		if sel.Walked(r.Name) {
			nw++
		}
	}
	switch prop {
	case "C06":
		if nw > 0 && nw < len(refs) && len(p.RefOpts) >= 2 {
			c.Stats.Nontrivial[sc.Hash()] = true
		}
	default:
		cfg := 0
		for s := range wantTally {
			if g, ok := gm.Groups[s]; ok && s != "" && len(g.Rules) > 0 && !isBuiltinGroup(s) {
				cfg++
			}
		}
		if cfg > 0 && len(refs) >= 2 {
			c.Stats.Nontrivial[sc.Hash()] = true
		}
	}
	c.Stats.Sample(map[string]interface{}{"args": sc.Inv.Args, "refs": refNames(refs), "walked": nw, "tally": wantTally, "config_local": firstBytes([]byte(w.Config.Local), 400)})
	if len(res.Run.Unmodelled) > 0 && !sc.Plan.RealPeers {
		// git-sizer passed an option the stub does not model: real git judges the same scenario
		r := *sc
		r.Plan = Plan{RealPeers: true}
		return judgeRefs(c, &r, prop)
	}
	return nil
}

func isBuiltinGroup(s string) bool {
	switch s {
	case "branches", "tags", "remotes", "pulls", "changes", "notes", "stash":
		return true
	}
	return false
}

func refNames(refs []Ref) []string {
	var out []string
	for _, r := range refs {
		out = append(out, r.Name)
	}
	return out
}

func describeOpts(opts []RefOpt) string {
	var parts []string
	for _, o := range opts {
		parts = append(parts, strings.Join(o.Args, " "))
	}
	return "[" + strings.Join(parts, ", ") + "]"
}

func tallyDiff(want, got map[string]uint64) string {
	var ds []string
	for k, v := range want {
		if got[k] != v {
			ds = append(ds, fmt.Sprintf("%q: got %d want %d", k, got[k], v))
		}
	}
	for k, v := range got {
		if _, ok := want[k]; !ok {
			ds = append(ds, fmt.Sprintf("%q: got %d want absent", k, v))
		}
	}
	sort.Strings(ds)
	return strings.Join(ds, "; ")
}

func genRefsScenario(g G, prop string) *Scenario {
	exotic := prop == "C15" || g.Chance(1, 3, "exoticrefs")
	w := manyRefsWorld(g, exotic)
	maxDepth := 4
	if prop == "C07" {
		maxDepth = 16
	}
	specs := GenGroups(g, w, maxDepth, prop == "C15" || g.Chance(1, 4, "exoticgroups"))
	// rule-less parents are fine; make sure implicit leaf parents cannot occur: every spec has rules
	cfgText := RenderGroups(specs, &g)
	switch prop {
	case "C15":
		w.Config = genNastyConfig(g, specs)
	default:
		switch g.Pick(3, "cfgscope") {
		case 0:
			w.Config.Local = cfgText
		case 1:
			w.Config.Global = cfgText
		default:
			w.Config.System = cfgText
		}
	}
	gm := NewGroupModel()
	for _, s := range specs {
		gm.ensure(s.Symbol)
	}
	io := InvOpts{RefOpts: true, Regexps: true, Groups: true, MaxRefOpts: 6}
	var refopts []RefOpt
	if prop == "C06" {
		io.MaxRefOpts = 8
	}
	refopts = GenRefOpts(g, w, gm, io)
	// regexps from the richer generator too
	var names []string
	for _, r := range w.AllRefs() {
		names = append(names, r.Name)
	}
	for i := range refopts {
		if refopts[i].Kind == "regexp" && refopts[i].Pattern != "refs/stash" && g.Chance(2, 3, "richre") {
			re := GenRegexp(g, names)
			flag := "--exclude"
			if refopts[i].Include {
				flag = "--include"
			}
			if len(refopts[i].Args) == 2 && strings.HasSuffix(refopts[i].Args[0], "-regexp") {
				refopts[i].Args = []string{flag + "-regexp", re}
			} else {
				refopts[i].Args = []string{flag, "/" + re + "/"}
			}
			refopts[i].Pattern = re
		}
	}
	var roots []RootArg
	if g.Chance(1, 3, "withroots") {
		roots = GenRoots(g, w)
	}
	var fixed []string
	switch prop {
	case "C06":
		fixed = append(fixed, "--json", "--show-refs")
	default:
		switch g.Pick(4, "fmt") {
		case 0:
			fixed = append(fixed, "-v", "--names=none")
		case 1:
			fixed = append(fixed, "--json", "--json-version=2")
		default:
			fixed = append(fixed, "--json")
		}
		if g.Chance(1, 3, "showrefs") {
			fixed = append(fixed, "--show-refs")
		}
	}
	inv := BuildInvocation(g, fixed, refopts, roots, []string{"top"}, w)
	var syms []string
	for _, s := range specs {
		syms = append(syms, s.Symbol)
	}
	return &Scenario{Format: 1, Property: prop, Engine: "A", World: w, Inv: inv, Plan: GenPlan(g, false), Params: refsParams{RefOpts: refopts, Groups: syms}}
}

// genNastyConfig spreads the group definitions over all scopes and
// interleaves them with foreign entries of every value shape.
func genNastyConfig(g G, specs []GroupSpec) Config {
	var cfg Config
	foreign := []string{
		"[foo]\n\tbar\n",                                 // valueless key
		"[foo]\n\tbaz =\n",                               // empty value
		"[foo \"sub.section\"]\n\tkey = value\n",         // dotted subsection
		"[foo \"Sub Section\"]\n\tKey = Value\n",         // capitals and space
		"[multi]\n\tline = \"first\\nsecond\\nthird\"\n", // multi-line value
		"[refgroupx \"y\"]\n\tinclude = refs/heads\n",    // look-alike section
		"[refgroup]\n\tinclude = refs/heads\n",           // refgroup without subsection
		"[xrefgroup \"z\"]\n\tinclude = refs/tags\n",
		"[core]\n\tlogAllRefUpdates = false\n",
		"[alias]\n\tlg = \"log --oneline \\\"$@\\\"\"\n",
		"[user]\n\tname = \"A \\\"quoted\\\" name\"\n\temail = a@example.com\n",
		"[foo]\n\tlast\n", // valueless key at the very end of a file
		"[url \"https://example.com/\"]\n\tinsteadOf = ex:\n",
		"[multi]\n\ttabs = \"a\\tb\"\n",
		"[sizerx]\n\tthreshold = 7\n",
	}
	pick := func(label string) string { return foreign[g.Pick(len(foreign), label)] }
	scopes := []*string{&cfg.System, &cfg.Global, &cfg.Local, &cfg.Worktree}
	for si, sp := range scopes {
		if si == 3 && !g.Chance(1, 4, "useworktree") {
			continue
		}
		var b strings.Builder
		n := g.Int(0, 3, "nforeign")
		for i := 0; i < n; i++ {
			b.WriteString(pick("foreign"))
		}
		*sp = b.String()
	}
	for _, gs := range specs {
		si := g.Pick(3, "groupscope")
		var b strings.Builder
		if g.Chance(2, 3, "valuelessbefore") {
			b.WriteString("[foo]\n\tbar\n")
		} else if g.Bool("foreignbefore") {
			b.WriteString(pick("fb"))
		}
		b.WriteString(RenderGroups([]GroupSpec{gs}, &g))
		if g.Bool("foreignafter") {
			b.WriteString(pick("fa"))
		}
		*scopes[si] += b.String()
	}
	if g.Chance(1, 2, "endvalueless") {
		*scopes[g.Pick(3, "endscope")] += "[foo]\n\tlast\n"
	}
	if g.Chance(1, 3, "cmdscope") {
		cfg.Command = append(cfg.Command, ConfigKV{"foo.cmd", "x"})
		if len(specs) > 0 && g.Bool("cmdrule") {
			cfg.Command = append(cfg.Command, ConfigKV{"refgroup." + specs[0].Symbol + ".include", "refs/notes"})
		}
	}
	return cfg
}

// c06Prefix: every sequence of length <= 2 over a fixed alphabet of rules
// on a fixed world, so that the fold's base cases are never left to chance.
func c06Prefix(c *Ctx) (*Scenario, *Violation) {
	w := &World{Layout: "packed-refs", Head: "ref: refs/heads/main"}
	blob := w.Add(NewObject(KBlob, []byte("x\n")))
	tree := w.Add(NewObject(KTree, EncodeTree([]TreeEntry{{Mode: 0o100644, Name: "f", OID: blob.ID}})))
	var prev string
	names := []string{"refs/heads/main", "refs/heads/mainline", "refs/heads/foo", "refs/heads/foo/bar", "refs/heads/foobar", "refs/tags/v1", "refs/tags/main",
		"refs/remotes/origin/main", "refs/notes/commits", "refs/stash", "refs/stashed", "refs/headstrong/x", "refs/foo"}
	for i, n := range names {
		cs := CommitSpec{Tree: tree.ID, Author: ident("A", int64(1000+i), "+0000"), Committer: ident("C", int64(1000+i), "+0000"), Message: fmt.Sprintf("c%d\n", i)}
		if prev != "" && i%3 != 0 {
			cs.Parents = []string{prev}
		}
		co := w.Add(NewObject(KCommit, EncodeCommit(cs)))
		prev = co.ID
		w.Refs = append(w.Refs, Ref{Name: n, OID: co.ID})
	}
	alphabet := []RefOpt{
		{Args: []string{"--include", "refs/heads/foo"}, Include: true, Kind: "prefix", Pattern: "refs/heads/foo"},
		{Args: []string{"--exclude", "refs/heads/foo"}, Include: false, Kind: "prefix", Pattern: "refs/heads/foo"},
		{Args: []string{"--include", "refs/heads/"}, Include: true, Kind: "prefix", Pattern: "refs/heads/"},
		{Args: []string{"--exclude", "refs/he"}, Include: false, Kind: "prefix", Pattern: "refs/he"},
		{Args: []string{"--include", "/refs/heads/main|refs/tags/v1/"}, Include: true, Kind: "regexp", Pattern: "refs/heads/main|refs/tags/v1"},
		{Args: []string{"--exclude", "/.*main/"}, Include: false, Kind: "regexp", Pattern: ".*main"},
		{Args: []string{"--tags"}, Include: true, Kind: "prefix", Pattern: "refs/tags"},
		{Args: []string{"--no-stash"}, Include: false, Kind: "regexp", Pattern: "refs/stash"},
		{Args: []string{"--include", "@remotes"}, Include: true, Kind: "group", Pattern: "remotes"},
		{Args: []string{"--exclude", "@branches"}, Include: false, Kind: "group", Pattern: "branches"},
	}
	var seqs [][]RefOpt
	seqs = append(seqs, nil)
	for _, a := range alphabet {
		seqs = append(seqs, []RefOpt{a})
	}
	for _, a := range alphabet {
		for _, b := range alphabet {
			seqs = append(seqs, []RefOpt{a, b})
		}
	}
	for _, withRoot := range []bool{false, true} {
		for _, seq := range seqs {
			args := []string{"--json", "--show-refs"}
			for _, o := range seq {
				args = append(args, o.Args...)
			}
			inv := Invocation{Args: args, Cwd: "top"}
			if withRoot {
				inv.Args = append(inv.Args, w.Refs[5].OID)
				inv.Roots = []RootArg{{Expr: w.Refs[5].OID, OID: w.Refs[5].OID}}
			}
			sc := &Scenario{Format: 1, Property: "C06", Engine: "A", World: w, Inv: inv, Plan: Plan{}, Params: refsParams{RefOpts: seq}}
			if v := judgeRefs(c, sc, "C06"); v != nil {
				return sc, v
			}
		}
	}
	c.Stats.Exhaustive["all option sequences of length <= 2 over a 10-rule alphabet, with and without a ROOT, on a fixed 13-reference world"] = true
	return nil, nil
}

func init() {
	for _, prop := range []string{"C06", "C07", "C15"} {
		prop := prop
		p := &Prop{ID: prop,
			Check: func(c *Ctx, rt *rapid.T) {
				sc := genRefsScenario(G{rt}, prop)
				if v := judgeRefs(c, sc, prop); v != nil {
					c.Fail(rt, sc, v.Class, v.Detail)
				}
			},
			Replay:     func(c *Ctx, sc *Scenario) *Violation { return judgeRefs(c, sc, prop) },
			Components: componentsA,
		}
		switch prop {
		case "C06":
			p.Prefix = c06Prefix
			p.Rule = "deterministic prefix: all option sequences of length <= 2 over a 10-rule alphabet (with/without ROOT) on a fixed world with look-alike names; then seeded: worlds with up to 14 look-alike references x option sequences of length 0-8 (prefixes cut anywhere in existing names, regexps from a small AST incl. top-level alternation and anchors, @groups from generated gitconfig, --branches..--no-stash, deprecated spellings) x ROOTs; observed at --show-refs, at the roots fed to the simulated rev-list and in the census; non-trivial: >= 2 options, some but not all references traversed; distinct by scenario hash"
		case "C07":
			p.Rule = "seeded refgroup forests up to 16 levels deep (implicit parents, overlapping groups, augmented built-ins, display names) in system/global/local config x up to 14 references x selections; JSON v1 reference_count/reference_groups, JSON v2 refgroup.* items and the --verbose table rows compared with the recursive tally definition evaluated on git's own config listing; non-trivial: a configured (non built-in) group with rules is tallied and >= 2 references; distinct by scenario hash"
		case "C15":
			p.Rule = "as C07 with the group definitions spread over system/global/local/worktree/command scopes and interleaved with foreign entries of every value shape (valueless keys before/after/at end of file, empty and multi-line values, dotted/capitalised subsections, look-alike sections); the oracle parses the bytes real `git config --list -z` returns NUL-first; non-trivial as C07; distinct by scenario hash"
		}
		Register(p)
	}
}
