package sim

// Reference-selection and refgroup model (oracle side of C06/C07), plus
// the generator of reference options.

import (
	"regexp"
	"sort"
	"strings"
)

// RefOpt is one reference-selection option as it appears on the command
// line, together with its modelled meaning.
type RefOpt struct {
	Args []string `json:"args"` // e.g. ["--include", "refs/heads"] or ["--no-tags"]
	// model
	Include bool   `json:"include"`
	Kind    string `json:"kind"` // prefix | regexp | group
	Pattern string `json:"pattern"`
}

func prefixMatch(p, name string) bool {
	if p == "" {
		return true
	}
	if strings.HasSuffix(p, "/") {
		return strings.HasPrefix(name, p)
	}
	return name == p || strings.HasPrefix(name, p+"/")
}

func regexpFullMatch(pat, name string) (bool, error) {
	re, err := regexp.Compile(`\A(?:` + pat + `)\z`)
	if err != nil {
		return false, err
	}
	return re.MatchString(name), nil
}

// GroupModel is the refgroup forest as the oracle understands it.
type GroupModel struct {
	Groups map[string]*GroupDef
	Order  []string // creation order of symbols (for display order)
}

type GroupRule struct {
	Include bool
	Regexp  bool
	Pattern string
}

type GroupDef struct {
	Symbol   string
	Name     string
	Rules    []GroupRule
	Parent   string
	Children []string
	// HasRules is true if the group has a filter of its own.
	HasRules bool
}

func parentSymbol(s string) string {
	i := strings.LastIndexByte(s, '.')
	if i < 0 {
		return ""
	}
	return s[:i]
}

func (gm *GroupModel) ensure(sym string) *GroupDef {
	if g, ok := gm.Groups[sym]; ok {
		return g
	}
	var parent string
	if sym != "" {
		parent = parentSymbol(sym)
		gm.ensure(parent)
	}
	g := &GroupDef{Symbol: sym, Parent: parent}
	gm.Groups[sym] = g
	gm.Order = append(gm.Order, sym)
	if sym != "" {
		p := gm.Groups[parent]
		p.Children = append(p.Children, sym)
	}
	return g
}

// NewGroupModel returns the built-in groups.
func NewGroupModel() *GroupModel {
	gm := &GroupModel{Groups: map[string]*GroupDef{}}
	gm.ensure("")
	gm.Groups[""].Name = "Refs to walk"
	b := func(sym, name string, r GroupRule) {
		g := gm.ensure(sym)
		g.Name = name
		g.Rules = []GroupRule{r}
		g.HasRules = true
	}
	b("branches", "Branches", GroupRule{true, false, "refs/heads/"})
	b("tags", "Tags", GroupRule{true, false, "refs/tags/"})
	b("remotes", "Remote-tracking refs", GroupRule{true, false, "refs/remotes/"})
	b("pulls", "Pull request refs", GroupRule{true, false, "refs/pull/"})
	b("changes", "Changeset refs", GroupRule{true, true, `refs/changes/\d{2}/\d+/\d+`})
	b("notes", "Git notes", GroupRule{true, false, "refs/notes/"})
	b("stash", "Git stash", GroupRule{true, true, `refs/stash`})
	return gm
}

// ConfigRecord is one entry of `git config --list -z`, parsed NUL-first.
type ConfigRecord struct {
	Key      string
	Value    string
	HasValue bool
}

// ParseConfigListZ parses the output of `git config --list -z`: records
// end at NUL; within a record the key ends at the first LF; a record
// without LF is a key without a value.
func ParseConfigListZ(b []byte) []ConfigRecord {
	var out []ConfigRecord
	for len(b) > 0 {
		i := strings.IndexByte(string(b), 0)
		var rec []byte
		if i < 0 {
			rec, b = b, nil
		} else {
			rec, b = b[:i], b[i+1:]
		}
		s := string(rec)
		if j := strings.IndexByte(s, '\n'); j >= 0 {
			out = append(out, ConfigRecord{Key: s[:j], Value: s[j+1:], HasValue: true})
		} else {
			out = append(out, ConfigRecord{Key: s})
		}
	}
	return out
}

// AddConfig augments the model from config records (all scopes, in git's
// order). Only refgroup.<symbol>.<key> entries matter.
func (gm *GroupModel) AddConfig(recs []ConfigRecord) {
	for _, r := range recs {
		if !strings.HasPrefix(r.Key, "refgroup.") {
			continue
		}
		rest := r.Key[len("refgroup."):]
		i := strings.LastIndexByte(rest, '.')
		if i < 0 {
			continue
		}
		sym, key := rest[:i], rest[i+1:]
		if sym == "" {
			continue
		}
		g := gm.ensure(sym)
		if !r.HasValue {
			continue // generators do not produce these; meaning unspecified
		}
		switch key {
		case "name":
			g.Name = r.Value
		case "include":
			g.Rules = append(g.Rules, GroupRule{true, false, r.Value})
			g.HasRules = true
		case "includeregexp":
			g.Rules = append(g.Rules, GroupRule{true, true, r.Value})
			g.HasRules = true
		case "exclude":
			g.Rules = append(g.Rules, GroupRule{false, false, r.Value})
			g.HasRules = true
		case "excluderegexp":
			g.Rules = append(g.Rules, GroupRule{false, true, r.Value})
			g.HasRules = true
		}
	}
}

func ruleMatch(r GroupRule, name string) bool {
	if r.Regexp {
		ok, _ := regexpFullMatch(r.Pattern, name)
		return ok
	}
	return prefixMatch(r.Pattern, name)
}

// own applies a group's own rule list: last matching rule wins; default
// is the opposite of the first rule's polarity.
func (g *GroupDef) own(name string) bool {
	res := !g.Rules[0].Include
	for _, r := range g.Rules {
		if ruleMatch(r, name) {
			res = r.Include
		}
	}
	return res
}

// matches: the group's own rules, or for a rule-less group the union of
// its subgroups.
func (gm *GroupModel) matches(sym, name string) bool {
	g := gm.Groups[sym]
	if g.HasRules {
		return g.own(name)
	}
	for _, c := range g.Children {
		if gm.matches(c, name) {
			return true
		}
	}
	return false
}

// Member tells whether name is a member of group sym for the purposes of
// --include=@sym: all proper ancestors below the top that have rules
// must pass, and the group must match.
func (gm *GroupModel) Member(sym, name string) bool {
	for a := parentSymbol(sym); a != ""; a = parentSymbol(a) {
		g := gm.Groups[a]
		if g.HasRules && !g.own(name) {
			return false
		}
	}
	return gm.matches(sym, name)
}

// Defined reports whether every group is usable: a leaf group without
// rules is an error in git-sizer by design.
func (gm *GroupModel) Undefined() []string {
	var bad []string
	for _, s := range gm.Order {
		g := gm.Groups[s]
		if s != "" && !g.HasRules && len(g.Children) == 0 {
			bad = append(bad, s)
		}
	}
	return bad
}

// Selection is the model of the top-level filter.
type Selection struct {
	Opts     []RefOpt
	HasRoots bool
	GM       *GroupModel
}

func (s *Selection) optMatch(o RefOpt, name string) bool {
	switch o.Kind {
	case "regexp":
		ok, _ := regexpFullMatch(o.Pattern, name)
		return ok
	case "group":
		return s.GM.Member(o.Pattern, name)
	default:
		return prefixMatch(o.Pattern, name)
	}
}

// Walked tells whether the reference is traversed.
func (s *Selection) Walked(name string) bool {
	if len(s.Opts) == 0 {
		return !s.HasRoots
	}
	res := !s.Opts[0].Include
	for _, o := range s.Opts {
		if s.optMatch(o, name) {
			res = o.Include
		}
	}
	return res
}

// Tally returns the group symbols under which a reference is counted.
func (s *Selection) Tally(name string) []string {
	if !s.Walked(name) {
		return []string{"ignored"}
	}
	out := []string{""}
	top := s.GM.Groups[""]
	n := 0
	for _, c := range top.Children {
		ss := s.tallyGroup(c, name)
		n += len(ss)
		out = append(out, ss...)
	}
	if len(top.Children) > 0 && n == 0 {
		out = append(out, "other")
	}
	return out
}

func (s *Selection) tallyGroup(sym, name string) []string {
	g := s.GM.Groups[sym]
	if g.HasRules {
		if !g.own(name) {
			return nil
		}
		out := []string{sym}
		n := 0
		for _, c := range g.Children {
			ss := s.tallyGroup(c, name)
			n += len(ss)
			out = append(out, ss...)
		}
		if len(g.Children) > 0 && n == 0 {
			out = append(out, sym+".other")
		}
		return out
	}
	var sub []string
	for _, c := range g.Children {
		sub = append(sub, s.tallyGroup(c, name)...)
	}
	if len(sub) == 0 {
		return nil
	}
	return append([]string{sym}, sub...)
}

// DisplayOrder returns the group symbols in presentation order
// (depth-first, "other" after a group's subgroups, "ignored" last).
func (gm *GroupModel) DisplayOrder() []string {
	var out []string
	var rec func(sym string)
	rec = func(sym string) {
		out = append(out, sym)
		g := gm.Groups[sym]
		for _, c := range g.Children {
			rec(c)
		}
		if len(g.Children) > 0 {
			if sym == "" {
				out = append(out, "other")
			} else {
				out = append(out, sym+".other")
			}
		}
	}
	rec("")
	out = append(out, "ignored")
	return out
}

// DisplayName returns the name shown for a group symbol.
func (gm *GroupModel) DisplayName(sym string) string {
	if sym == "ignored" {
		if _, ok := gm.Groups[sym]; !ok {
			return "Ignored"
		}
	}
	if g, ok := gm.Groups[sym]; ok {
		if g.Name != "" {
			return g.Name
		}
		if i := strings.LastIndexByte(sym, '.'); i >= 0 {
			return sym[i+1:]
		}
		return sym
	}
	if sym == "other" || strings.HasSuffix(sym, ".other") {
		return "Other"
	}
	return sym
}

// AllRefs lists the references git for-each-ref reports for the world.
func (w *World) AllRefs() []Ref {
	refs := append([]Ref(nil), w.Refs...)
	for _, rp := range w.Extras.Replace {
		refs = append(refs, Ref{Name: "refs/replace/" + rp[0], OID: rp[1]})
	}
	sort.Slice(refs, func(i, j int) bool { return refs[i].Name < refs[j].Name })
	return refs
}
