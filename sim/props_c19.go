package sim

// C19: reports are well-formed for any names.

import (
	"encoding/json"
	"fmt"
	"sort"
	"strings"
	"unicode/utf8"

	"pgregory.net/rapid"
)

type c19Params struct {
	RefOpts []RefOpt `json:"refopts,omitempty"`
}

// plainTwin returns a copy of the world in which every tree-entry name and
// reference name is replaced by a plain ASCII name of the same length.
func plainTwin(w *World) (*World, map[string]string) {
	nw := &World{Head: w.Head, Layout: w.Layout, Bare: w.Bare, Extras: w.Extras}
	remap := map[string]string{}
	mapID := func(id string) string {
		if n, ok := remap[id]; ok {
			return n
		}
		return id
	}
	plainName := func(i int, l int) string {
		const alpha = "abcdefghijklmnopqrstuvwxyz"
		if l <= 0 {
			return ""
		}
		b := make([]byte, l)
		x := i
		for k := range b {
			b[k] = alpha[x%26]
			x = x/26 + 7*k
		}
		return string(b)
	}
	for _, o := range w.Objects {
		body := o.Body
		switch o.Kind {
		case KTree:
			es, err := DecodeTree(body)
			if err == nil {
				used := map[string]bool{}
				for i := range es {
					es[i].OID = mapID(es[i].OID)
					n := plainName(i, len(es[i].Name))
					for j := 1; used[n] && j < 1000; j++ {
						n = plainName(i+26*j, len(es[i].Name))
					}
					used[n] = true
					es[i].Name = n
				}
				SortTreeEntries(es)
				body = EncodeTree(es)
			}
		case KCommit:
			s := string(body)
			lines := strings.SplitAfter(s, "\n")
			for i, l := range lines {
				if l == "\n" {
					break
				}
				if strings.HasPrefix(l, "tree ") && len(l) >= 46 {
					lines[i] = "tree " + mapID(l[5:45]) + l[45:]
				} else if strings.HasPrefix(l, "parent ") && len(l) >= 48 {
					lines[i] = "parent " + mapID(l[7:47]) + l[47:]
				}
			}
			body = []byte(strings.Join(lines, ""))
		case KTag:
			s := string(body)
			if strings.HasPrefix(s, "object ") && len(s) >= 47 {
				body = []byte("object " + mapID(s[7:47]) + s[47:])
			}
		}
		no := NewObject(o.Kind, body)
		no.Stored, no.DeclaredSize = o.Stored, o.DeclaredSize
		if no.ID != o.ID {
			remap[o.ID] = no.ID
		}
		nw.Add(no)
	}
	for i, r := range w.Refs {
		// keep the namespace (it decides the reference groups), plain leaf
		name := r.Name
		if j := strings.LastIndexByte(name, '/'); j >= 0 {
			name = name[:j+1] + fmt.Sprintf("plain%d", i)
		}
		nw.Refs = append(nw.Refs, Ref{Name: name, OID: mapID(r.OID)})
	}
	if len(w.Head) == 40 {
		nw.Head = mapID(w.Head)
	}
	return nw, remap
}

func jsonKeySet(b []byte, dropRefgroups bool) (map[string]bool, map[string][]string, error) {
	if !utf8.Valid(b) {
		return nil, nil, fmt.Errorf("output is not valid UTF-8")
	}
	if !json.Valid(b) {
		return nil, nil, fmt.Errorf("output is not valid JSON")
	}
	m, err := ParseJSONObject(b)
	if err != nil {
		return nil, nil, err
	}
	keys := map[string]bool{}
	sub := map[string][]string{}
	for k, v := range m {
		if dropRefgroups && strings.HasPrefix(k, "refgroup.") {
			continue
		}
		keys[k] = true
		if o, ok := v.(map[string]interface{}); ok && k != "reference_groups" {
			var ks []string
			for kk := range o {
				ks = append(ks, kk)
			}
			sort.Strings(ks)
			sub[k] = ks
		}
	}
	return keys, sub, nil
}

// checkFootnotes validates the citation / footnote structure of a table.
func checkFootnotes(tb *Table) *Violation {
	if tb.NoProblems {
		return nil
	}
	seen := 0
	cited := map[int]bool{}
	metricRow := map[string]bool{}
	for _, m := range Metrics {
		metricRow[m.Row] = true
	}
	for _, r := range tb.Rows {
		if !r.IsItem || !metricRow[tb.Key(r)] || r.Cite == 0 {
			continue
		}
		if r.Cite > len(tb.Footnotes) {
			return &Violation{"C19/citation-without-footnote", fmt.Sprintf("row %q cites [%d]; the table has %d footnotes", tb.Key(r), r.Cite, len(tb.Footnotes))}
		}
		if !cited[r.Cite] {
			if r.Cite != seen+1 {
				return &Violation{"C19/footnote-numbering", fmt.Sprintf("row %q introduces [%d] after [%d]", tb.Key(r), r.Cite, seen)}
			}
			seen = r.Cite
			cited[r.Cite] = true
		}
	}
	if len(tb.Footnotes) != seen {
		return &Violation{"C19/uncited-footnote", fmt.Sprintf("%d footnotes, %d cited", len(tb.Footnotes), seen)}
	}
	texts := map[string]int{}
	for i, f := range tb.Footnotes {
		if j, ok := texts[f]; ok {
			return &Violation{"C19/duplicate-footnote", fmt.Sprintf("footnotes [%d] and [%d] have the same text %q", j+1, i+1, f)}
		}
		texts[f] = i
	}
	return nil
}

func judgeC19(c *Ctx, sc *Scenario) *Violation {
	var p c19Params
	decodeParams(sc, &p)
	w := sc.World
	site, err := Materialise(w)
	if err != nil {
		return nil
	}
	defer site.Close()
	if !verifyRoots(c, site, sc.Inv.Roots) {
		return nil
	}
	gm, _, err := groupModelFor(site)
	if err != nil {
		c.Stats.Probe("git-config-rejects-generated-config")
		return nil
	}
	for _, s := range gm.Order {
		for _, r := range gm.Groups[s].Rules {
			if r.Regexp {
				if _, err := regexpFullMatch(r.Pattern, "x"); err != nil {
					c.Stats.Probe("generated-regexp-invalid (skipped)")
					return nil
				}
			}
		}
	}
	if len(gm.Undefined()) > 0 {
		return nil
	}
	twin, remap := plainTwin(w)
	twin.Config = Config{} // plain names: no exotic refgroups either
	tsite, err := Materialise(twin)
	if err != nil {
		return nil
	}
	defer tsite.Close()
	c.Stats.Evaluations++
	run := func(s *Site, world *World, args []string, roots []RootArg) (*Result, *Violation) {
		v := *sc
		v.World = world
		v.Inv.Args = append(append([]string(nil), args...), sc.Inv.Args...)
		for _, r := range roots {
			v.Inv.Args = append(v.Inv.Args, r.Expr)
		}
		res := RunA(c.T, c.H, &v, s)
		c.Stats.AddResult(res)
		if res.Panic != "" {
			return nil, &Violation{"C19/panic", fmt.Sprintf("%v: %s", args, firstLines(res.Panic, 8))}
		}
		if res.Hang {
			return nil, &Violation{"C19/hang", fmt.Sprint(args)}
		}
		if res.Failed {
			return nil, &Violation{"C19/run-failed", fmt.Sprintf("%v: %s", v.Inv.Args, res.Err)}
		}
		return res, nil
	}
	// ROOT arguments of the twin: the same objects by (remapped) id
	var troots []RootArg
	for _, r := range sc.Inv.Roots {
		id := r.OID
		if n, ok := remap[id]; ok {
			id = n
		}
		troots = append(troots, RootArg{Expr: id, OID: id})
	}
	for _, fmtArgs := range [][]string{{"--json"}, {"--json", "--json-version=2"}} {
		ra, v := run(site, w, fmtArgs, sc.Inv.Roots)
		if v != nil {
			return v
		}
		rb, v := run(tsite, twin, fmtArgs, troots)
		if v != nil {
			// the plain twin failing is not about names
			c.Stats.Probe("plain-twin-run-failed")
			return nil
		}
		ka, sa, err := jsonKeySet(ra.Stdout, true)
		if err != nil {
			return &Violation{"C19/invalid-json", fmt.Sprintf("%v: %v\n%s", fmtArgs, err, firstBytes(ra.Stdout, 400))}
		}
		if len(fmtArgs) == 1 {
			// JSON v1: the fixed part of the key set does not depend on the
			// repository at all (an empty scan reports zeros and an empty
			// reference_groups object)
			m1, _ := ParseJSONObject(ra.Stdout)
			for _, k := range append(append([]string(nil), AllNumericFields...), "reference_count") {
				if _, ok := m1[k]; !ok {
					return &Violation{"C19/json-key-missing", fmt.Sprintf("%v: key %q is missing", fmtArgs, k)}
				}
			}
			if _, ok := m1["reference_groups"].(map[string]interface{}); !ok {
				return &Violation{"C19/json-key-missing", fmt.Sprintf("%v: reference_groups is %T, not an object", fmtArgs, m1["reference_groups"])}
			}
		}
		kb, sb, err := jsonKeySet(rb.Stdout, true)
		if err != nil {
			return nil
		}
		if d := setDiff(kb, ka); d != "" {
			return &Violation{"C19/json-key-set", fmt.Sprintf("%v: compared with the plain-name twin: %s", fmtArgs, d)}
		}
		for k, ks := range sb {
			if strings.Join(sa[k], ",") != strings.Join(ks, ",") {
				// objectDescription is omitted when empty; that depends on whether a name was found, not on its bytes
				a := strings.ReplaceAll(strings.Join(sa[k], ","), "objectDescription,", "")
				b := strings.ReplaceAll(strings.Join(ks, ","), "objectDescription,", "")
				if a != b {
					return &Violation{"C19/json-item-key-set", fmt.Sprintf("%v: item %s has keys %v, the plain-name twin %v", fmtArgs, k, sa[k], ks)}
				}
			}
		}
	}
	for _, args := range [][]string{{"-v"}, {"-v", "--names=hash"}, {"--threshold=0.0001"}} {
		rt, v := run(site, w, args, sc.Inv.Roots)
		if v != nil {
			return v
		}
		tb, err := ParseTable(rt.Stdout)
		if err != nil {
			return &Violation{"C19/table-malformed", fmt.Sprintf("%v: %v\n%s", args, err, firstBytes(rt.Stdout, 1200))}
		}
		if v := checkFootnotes(tb); v != nil {
			v.Detail = fmt.Sprintf("%v: %s", args, v.Detail)
			return v
		}
		c.Stats.Extra["footnotes_checked"] += float64(len(tb.Footnotes))
	}
	c.Stats.Nontrivial[sc.Hash()] = true
	c.Stats.Sample(map[string]interface{}{"refs": refNames(w.Refs), "roots": sc.Inv.Roots, "config": firstBytes([]byte(w.Config.Local), 300)})
	return nil
}

func checkC19(c *Ctx, rt *rapid.T) {
	g := G{rt}
	opts := DefaultGen
	opts.NameStyle = 2
	opts.ExoticRefNames = true
	opts.LongNames = true
	opts.ExtraHeaders = false
	w := GenWorld(g, opts)
	// names that would forge table structure are outside the grey zone we test
	for _, o := range w.Objects {
		if o.Kind == KTree && strings.Contains(string(o.Body), "\n[") {
			return
		}
	}
	if g.Rare(1, 8, "norefs") {
		// nothing to list at all: no reference (objects stay, reachable only
		// through ROOT arguments), HEAD unborn - the report keeps its shape
		w.Refs = nil
		w.Head = "ref: refs/heads/unborn"
	}
	specs := GenGroups(g, w, 4, true)
	w.Config.Local = RenderGroups(specs, &g)
	gm := NewGroupModel()
	for _, s := range specs {
		gm.ensure(s.Symbol)
	}
	// no reference options: the plain-name twin must select the same objects
	var refopts []RefOpt
	_ = gm
	roots := GenRoots(g, w)
	// also ROOTs spelled through exotic reference names and paths
	if len(w.Refs) > 0 && g.Chance(1, 2, "refroot") {
		r := w.Refs[g.Pick(len(w.Refs), "whichrefroot")]
		roots = append(roots, RootArg{Expr: r.Name, OID: r.OID})
	}
	var args []string
	for _, ro := range refopts {
		args = append(args, ro.Args...)
	}
	inv := Invocation{Args: args, Roots: roots, Cwd: "top"}
	sc := &Scenario{Format: 1, Property: "C19", Engine: "A", World: w, Inv: inv, Plan: GenPlan(g, false), Params: c19Params{RefOpts: refopts}}
	if v := judgeC19(c, sc); v != nil {
		c.Fail(rt, sc, v.Class, v.Detail)
	}
}

func init() {
	Register(&Prop{ID: "C19", Check: checkC19, Replay: judgeC19, Components: componentsA,
		Rule: "worlds with hostile tree-entry names (spaces, quotes, backslashes, ':', '[1]', control bytes, newline, non-UTF-8, 100-400 byte names), exotic but legal reference names, refgroup symbols and display names, ROOT arguments spelled through them; JSON v1 and v2 must be valid UTF-8 and valid JSON with the key set (and per-item key sets) of a twin world whose names are plain ASCII of the same lengths (refgroup.* keys aside); the table at three settings must parse, every citation must have a footnote, every footnote be cited, numbering follow first citation, no two footnotes share a text. Pure function of names delivered by the peers; distinct by scenario hash"})
}
