package sim

// Graph-feed driver: feeds git-sizer's sizes.Graph directly through its
// exported API in every (or many) legal delivery orders and compares the
// resulting HistorySize with the model. Microseconds per order, so small
// graphs are covered for every order.

import (
	"fmt"
	"sort"
	"strings"
)

type feedParams struct {
	Mode  string   `json:"mode"` // graphfeed
	Roots []string `json:"roots"`
	// Orders: explicit orders to replay (tree perm, commit perm, tag perm as index lists); empty = enumerate
	TreeOrder   []int `json:"tree_order,omitempty"`
	CommitOrder []int `json:"commit_order,omitempty"`
	TagOrder    []int `json:"tag_order,omitempty"`
	MaxOrders   int   `json:"max_orders,omitempty"`
}

// permutations calls f with every permutation of 0..n-1 (Heap's
// algorithm) until f returns false; at most limit permutations.
func permutations(n, limit int, f func([]int) bool) (count int, complete bool) {
	idx := make([]int, n)
	for i := range idx {
		idx[i] = i
	}
	c := make([]int, n)
	count = 1
	if !f(idx) {
		return count, false
	}
	i := 0
	for i < n {
		if c[i] < i {
			if i%2 == 0 {
				idx[0], idx[i] = idx[i], idx[0]
			} else {
				idx[c[i]], idx[i] = idx[i], idx[c[i]]
			}
			if count >= limit {
				return count, false
			}
			count++
			if !f(idx) {
				return count, false
			}
			c[i]++
			i = 0
		} else {
			c[i] = 0
			i++
		}
	}
	return count, true
}

// linearExtensions enumerates orders of commits in which every parent
// precedes its children (the order git-sizer registers commits in).
func linearExtensions(ids []string, parents map[string][]string, limit int, f func([]string) bool) (count int, complete bool) {
	n := len(ids)
	inSet := map[string]bool{}
	for _, id := range ids {
		inSet[id] = true
	}
	placed := map[string]bool{}
	cur := make([]string, 0, n)
	complete = true
	stop := false
	var rec func()
	rec = func() {
		if stop {
			return
		}
		if len(cur) == n {
			if count >= limit {
				complete = false
				stop = true
				return
			}
			count++
			if !f(cur) {
				stop = true
				complete = false
			}
			return
		}
		for _, id := range ids {
			if placed[id] {
				continue
			}
			ok := true
			for _, p := range parents[id] {
				if inSet[p] && !placed[p] {
					ok = false
					break
				}
			}
			if !ok {
				continue
			}
			placed[id] = true
			cur = append(cur, id)
			rec()
			cur = cur[:len(cur)-1]
			placed[id] = false
			if stop {
				return
			}
		}
	}
	rec()
	return count, complete
}

// feedOnce feeds one order and returns the JSON v1 object.
func feedOnce(api GraphAPI, w *World, blobs, trees, commits, tags []string) (m map[string]interface{}, panicMsg string, err error) {
	defer func() {
		if p := recover(); p != nil {
			panicMsg = fmt.Sprint(p)
		}
	}()
	g := api.NewGraph(0)
	for _, id := range blobs {
		g.RegisterBlob(id, w.Get(id).Size())
	}
	for _, id := range trees {
		if err := g.RegisterTree(id, w.Get(id).Body); err != nil {
			return nil, "", err
		}
	}
	for _, id := range commits {
		if err := g.RegisterCommit(id, w.Get(id).Body); err != nil {
			return nil, "", err
		}
	}
	for _, id := range tags {
		if err := g.RegisterTag(id, w.Get(id).Body); err != nil {
			return nil, "", err
		}
	}
	b, err := g.HistoryJSON()
	if err != nil {
		return nil, "", err
	}
	m, err = ParseJSONObject(b)
	return m, "", err
}

func applyPerm(xs []string, perm []int) []string {
	out := make([]string, len(xs))
	for i, p := range perm {
		out[i] = xs[p%len(xs)]
	}
	return out
}

// judgeGraphFeed enumerates delivery orders for the world's closure.
func judgeGraphFeed(c *Ctx, sc *Scenario, prop string, fields []string) *Violation {
	var p feedParams
	decodeParams(sc, &p)
	w := sc.World
	ex := w.Expect(p.Roots)
	if len(ex.MissingNeeded) > 0 {
		return nil
	}
	var blobs, trees, commits, tags []string
	for id, k := range ex.Closure {
		switch k {
		case KBlob:
			blobs = append(blobs, id)
		case KTree:
			trees = append(trees, id)
		case KCommit:
			commits = append(commits, id)
		case KTag:
			tags = append(tags, id)
		}
	}
	sort.Strings(blobs)
	sort.Strings(trees)
	sort.Strings(commits)
	sort.Strings(tags)
	parents := map[string][]string{}
	for _, id := range commits {
		parents[id] = DecodeCommit(w.Get(id).Body).Parents
	}
	pfx := prop + "/"
	check := func(tr, co, tg []string) *Violation {
		m, pm, err := feedOnce(c.H.Graph, w, blobs, tr, co, tg)
		c.Stats.Extra["graph_feeds"]++
		if pm != "" {
			return &Violation{pfx + "graphfeed-panic", fmt.Sprintf("%s\ntrees %v\ncommits %v\ntags %v", pm, short(tr), short(co), short(tg))}
		}
		if err != nil {
			return &Violation{pfx + "graphfeed-error", err.Error()}
		}
		if bad := ex.CompareV1(m, fields); len(bad) > 0 {
			sort.Strings(bad)
			return &Violation{pfx + "graphfeed-mismatch:" + strings.SplitN(bad[0], ":", 2)[0], fmt.Sprintf("%s\ntrees %v\ncommits %v\ntags %v", strings.Join(bad, "; "), short(tr), short(co), short(tg))}
		}
		return nil
	}
	c.Stats.Evaluations++
	if len(p.TreeOrder)+len(p.CommitOrder)+len(p.TagOrder) > 0 {
		// replay of one explicit order
		tr, co, tg := trees, commits, tags
		if len(p.TreeOrder) == len(trees) {
			tr = applyPerm(trees, p.TreeOrder)
		}
		if len(p.CommitOrder) == len(commits) {
			co = applyPerm(commits, p.CommitOrder)
		}
		if len(p.TagOrder) == len(tags) {
			tg = applyPerm(tags, p.TagOrder)
		}
		return check(tr, co, tg)
	}
	limit := p.MaxOrders
	if limit == 0 {
		limit = 800
	}
	baseCommits := commits
	// a canonical linear extension for the commit dimension
	_, _ = linearExtensions(commits, parents, 1, func(o []string) bool { baseCommits = append([]string(nil), o...); return false })
	var found *Violation
	record := func(v *Violation, tr, co, tg []string) {
		found = v
		idx := func(all, order []string) []int {
			pos := map[string]int{}
			for i, id := range all {
				pos[id] = i
			}
			out := make([]int, len(order))
			for i, id := range order {
				out[i] = pos[id]
			}
			return out
		}
		np := p
		np.TreeOrder, np.CommitOrder, np.TagOrder = idx(trees, tr), idx(commits, co), idx(tags, tg)
		sc.Params = np
	}
	// trees: every permutation (bounded), commits and tags canonical
	allComplete := true
	if len(trees) > 0 {
		_, complete := permutations(len(trees), limit, func(perm []int) bool {
			tr := applyPerm(trees, perm)
			if v := check(tr, baseCommits, tags); v != nil {
				record(v, tr, baseCommits, tags)
				return false
			}
			return true
		})
		if found != nil {
			return found
		}
		allComplete = allComplete && complete
	}
	if len(tags) > 0 {
		_, complete := permutations(len(tags), limit, func(perm []int) bool {
			tg := applyPerm(tags, perm)
			if v := check(trees, baseCommits, tg); v != nil {
				record(v, trees, baseCommits, tg)
				return false
			}
			return true
		})
		if found != nil {
			return found
		}
		allComplete = allComplete && complete
	}
	if len(commits) > 0 {
		_, complete := linearExtensions(commits, parents, limit, func(o []string) bool {
			co := append([]string(nil), o...)
			if v := check(trees, co, tags); v != nil {
				record(v, trees, co, tags)
				return false
			}
			return true
		})
		if found != nil {
			return found
		}
		allComplete = allComplete && complete
	}
	if allComplete {
		c.Stats.Probe("graphfeed-graphs-with-every-order-enumerated")
	} else {
		c.Stats.Probe("graphfeed-graphs-with-orders-sampled")
	}
	if len(trees) >= 3 || len(tags) >= 2 || len(commits) >= 3 {
		c.Stats.Nontrivial["gf"+sc.Hash()] = true
	}
	return nil
}

func short(ids []string) []string {
	out := make([]string, len(ids))
	for i, id := range ids {
		if len(id) > 7 {
			id = id[:7]
		}
		out[i] = id
	}
	return out
}

// genFeedScenario draws a small world for exhaustive order enumeration.
func genFeedScenario(g G, prop string) *Scenario {
	opts := DefaultGen
	opts.MaxBlobs, opts.MaxTrees, opts.MaxCommits, opts.MaxTags, opts.MaxRefs, opts.MaxEntries = 4, 6, 6, 5, 4, 4
	opts.Octopus = false
	w := GenWorld(g, opts)
	var roots []string
	for _, r := range w.Refs {
		roots = append(roots, r.OID)
	}
	// also a few unreferenced objects as explicit roots
	for _, o := range w.Objects {
		if o.Stored && g.Chance(1, 6, "extraroot") {
			roots = append(roots, o.ID)
		}
	}
	return &Scenario{Format: 1, Property: prop, Engine: "graphfeed", World: w, Params: feedParams{Mode: "graphfeed", Roots: roots}}
}
