package sim

// Engine B: the real git-sizer binary (built from the current tree with
// the default toolchain) behind the fault-injecting git proxy.

import (
	"bytes"
	"context"
	"encoding/json"
	"errors"
	"fmt"
	"os"
	"os/exec"
	"path/filepath"
	"strings"
	"syscall"
	"time"
)

// ShimRule mirrors cmd/gitshim's rule.
type ShimRule struct {
	Match   string `json:"match"`
	Nth     int    `json:"nth"`
	Status  int    `json:"status"`
	Signal  int    `json:"signal"`
	AtByte  int    `json:"at_byte"`
	DelayMS int    `json:"delay_ms"`
	Chunk   int    `json:"chunk"`
	NoStdin bool   `json:"no_stdin"`
}

var shimMatch = map[string]string{
	"rev-list":     "rev-list --objects",
	"batch-check":  "cat-file --batch-check",
	"batch":        "cat-file --batch --buffer",
	"for-each-ref": "for-each-ref",
}

// ShimRulesFor translates a plan into proxy rules.
func ShimRulesFor(pl *Plan) []ShimRule {
	var rules []ShimRule
	for kind, pp := range pl.Peers {
		if pp == nil {
			continue
		}
		for _, f := range pp.Faults {
			if f.Kind == "stall" || f.StdinLines >= 0 {
				continue
			}
			r := ShimRule{Match: shimMatch[kind], AtByte: f.AtByte}
			if f.Kind == "signal" {
				r.Signal = f.Signal
			} else {
				r.Status = f.Status
				if r.Status == 0 {
					r.Status = 1
				}
			}
			rules = append(rules, r)
		}
		if len(pp.Faults) == 0 && (len(pp.Chunks) > 0 || len(pp.Delays) > 0) {
			r := ShimRule{Match: shimMatch[kind], AtByte: -1}
			if len(pp.Chunks) > 0 && pp.Chunks[0] > 0 {
				r.Chunk = pp.Chunks[0]
			}
			if len(pp.Delays) > 0 {
				r.DelayMS = pp.Delays[0] % 3
			}
			rules = append(rules, r)
		}
	}
	for _, o := range pl.Oneshot {
		rules = append(rules, ShimRule{Match: o.Match, Nth: o.Nth, Status: o.Status, Signal: o.Signal, AtByte: o.AtByte, DelayMS: o.DelayMS})
	}
	return rules
}

type BOpts struct {
	Race       bool
	GOMAXPROCS int
	Timeout    time.Duration
	ExtraEnv   []string
	// Argv0/PreArgs: run as `git -C dir sizer ...` when set
	ViaGit bool
	// NoShim: do not put the proxy directory first on PATH
	NoShim bool
	// StdoutFull: connect stdout to /dev/full (every write fails with ENOSPC)
	StdoutFull bool
}

// RunB executes the real binary for the scenario.
func RunB(sc *Scenario, site *Site, o BOpts) *Result {
	res := &Result{Run: &Run{sc: sc, w: sc.World, site: site, FaultsFired: map[string]int{}}}
	bin := os.Getenv("VERIF_GITSIZER_BIN")
	if o.Race {
		bin = os.Getenv("VERIF_GITSIZER_RACE_BIN")
	}
	if bin == "" {
		res.Panic = "engine B binary not built (VERIF_GITSIZER_BIN unset)"
		return res
	}
	env := EnvFor(site, &sc.Inv)
	shimdir := os.Getenv("VERIF_SHIMDIR")
	for i, kv := range env {
		if o.NoShim {
			break
		}
		if strings.HasPrefix(kv, "PATH=") && shimdir != "" && !strings.HasPrefix(kv, "PATH="+shimdir) {
			env[i] = "PATH=" + shimdir + string(os.PathListSeparator) + kv[5:]
		}
	}
	rules := ShimRulesFor(&sc.Plan)
	fired := filepath.Join(site.Root, fmt.Sprintf("shim-fired-%d", time.Now().UnixNano()))
	if len(rules) > 0 {
		planFile := filepath.Join(site.Root, fmt.Sprintf("shim-plan-%d.json", time.Now().UnixNano()))
		b, _ := json.Marshal(map[string]interface{}{"oneshot": rules})
		os.WriteFile(planFile, b, 0o644)
		state := filepath.Join(site.Root, fmt.Sprintf("shim-state-%d", time.Now().UnixNano()))
		env = append(env, "VERIF_SHIM_PLAN="+planFile, "VERIF_SHIM_STATE="+state, "VERIF_SHIM_FIRED="+fired)
		defer os.Remove(planFile)
		defer os.RemoveAll(state)
		defer os.Remove(fired)
	}
	if o.GOMAXPROCS > 0 {
		env = append(env, fmt.Sprintf("GOMAXPROCS=%d", o.GOMAXPROCS))
	}
	if o.Race {
		env = append(env, "GORACE=halt_on_error=0 exitcode=66")
	}
	env = append(env, o.ExtraEnv...)
	timeout := o.Timeout
	if timeout == 0 {
		timeout = 120 * time.Second
	}
	ctx, cancel := context.WithTimeout(context.Background(), timeout)
	defer cancel()
	cmd := exec.CommandContext(ctx, bin, sc.Inv.Args...)
	cmd.Dir = CwdFor(site, &sc.Inv)
	if sc.Inv.Cwd == "symlink" {
		// what a shell does after `cd <symlink>`: $PWD keeps the logical path
		env = append(env, "PWD="+cmd.Dir)
	}
	cmd.Env = env
	var so, se bytes.Buffer
	cmd.Stdout, cmd.Stderr = &so, &se
	if o.StdoutFull {
		if f, err := os.OpenFile("/dev/full", os.O_WRONLY, 0); err == nil {
			defer f.Close()
			cmd.Stdout = f
		}
	}
	cmd.SysProcAttr = &syscall.SysProcAttr{Setpgid: true}
	cmd.Cancel = func() error { return syscall.Kill(-cmd.Process.Pid, syscall.SIGKILL) }
	t0 := time.Now()
	err := cmd.Run()
	res.WallNS = int64(time.Since(t0))
	if ps := cmd.ProcessState; ps != nil {
		// processor time of git-sizer and the git processes it waited for:
		// unlike wall time it does not grow with the load of the machine
		res.CPUNS = int64(ps.UserTime() + ps.SystemTime())
	}
	res.Stdout, res.Stderr = so.Bytes(), se.Bytes()
	if ctx.Err() != nil {
		res.Hang = true
		return res
	}
	if err != nil {
		var ee *exec.ExitError
		if errors.As(err, &ee) {
			res.Failed = true
			res.Err = fmt.Sprintf("exit status %d", ee.ExitCode())
			if ee.ExitCode() == 2 && bytes.Contains(res.Stderr, []byte("goroutine ")) && bytes.Contains(res.Stderr, []byte("panic:")) {
				res.Panic = firstLines(string(res.Stderr), 12)
			}
			if ee.ExitCode() == 66 || bytes.Contains(res.Stderr, []byte("WARNING: DATA RACE")) {
				res.Panic = "DATA RACE\n" + firstLines(string(res.Stderr), 40)
			}
		} else {
			res.Panic = "could not run binary: " + err.Error()
		}
	}
	if b, err := os.ReadFile(fired); err == nil {
		for _, l := range strings.Split(strings.TrimSpace(string(b)), "\n") {
			if l != "" {
				res.Run.FaultsFired["proxy:"+l]++
			}
		}
	}
	return res
}

// BExitCode returns the real process's exit code (engine B keeps it in Err).
func (r *Result) BStderrOK() bool {
	return bytes.Contains(r.Stderr, []byte("error: "))
}
