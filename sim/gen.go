package sim

// World generator. Every choice is drawn from rapid's bit stream, so a
// scenario is a pure function of the seed and shrinks through the
// generator.

import (
	"crypto/sha1"
	"encoding/hex"
	"fmt"
	"strings"

	"pgregory.net/rapid"
)

// G wraps a rapid.T with terse helpers.
type G struct{ T *rapid.T }

func (g G) Int(lo, hi int, label string) int {
	if hi <= lo {
		return lo
	}
	return rapid.IntRange(lo, hi).Draw(g.T, label)
}
func (g G) Bool(label string) bool { return rapid.Bool().Draw(g.T, label) }

// Chance returns true with probability about num/den.
func (g G) Chance(num, den int, label string) bool {
	return rapid.IntRange(0, den-1).Draw(g.T, label) < num
}

// Rare returns true with probability close to num/den. rapid's integer
// generators are deliberately biased towards small values, which makes
// Chance() fire far more often than num/den for small num; Rare mixes the
// drawn value first.
func (g G) Rare(num, den uint64, label string) bool {
	u := rapid.Uint64().Draw(g.T, label)
	return splitmix64(u^0x5bd1e995)%den < num
}

func (g G) U64(lo, hi uint64, label string) uint64 {
	return rapid.Uint64Range(lo, hi).Draw(g.T, label)
}
func (g G) Pick(n int, label string) int { return g.Int(0, n-1, label) }
func (g G) PickStr(xs []string, label string) string {
	return xs[g.Pick(len(xs), label)]
}
func (g G) Bytes(maxLen int, label string) []byte {
	return rapid.SliceOfN(rapid.Byte(), 0, maxLen).Draw(g.T, label)
}
func (g G) Ints(maxLen, lo, hi int, label string) []int {
	return rapid.SliceOfN(rapid.IntRange(lo, hi), 0, maxLen).Draw(g.T, label)
}

// GenOpts tunes the world generator.
type GenOpts struct {
	MaxBlobs, MaxTrees, MaxCommits, MaxTags, MaxRefs int
	MaxEntries                                       int
	NameStyle                                        int // 0 plain, 1 mixed, 2 hostile
	DeclaredSizes                                    bool
	HugeSizes                                        bool // sizes around 2^32 / 2^64
	Octopus                                          bool
	ExtraHeaders                                     bool
	NonCommitRefs                                    bool // refs to trees/blobs/tags
	ExoticRefNames                                   bool
	LongNames                                        bool
	Gitlinks                                         bool
	Bomb                                             bool
	Symrefs                                          bool // a symbolic reference such as refs/remotes/origin/HEAD
}

var DefaultGen = GenOpts{MaxBlobs: 8, MaxTrees: 10, MaxCommits: 10, MaxTags: 5, MaxRefs: 8, MaxEntries: 5,
	NameStyle: 1, Octopus: true, ExtraHeaders: true, NonCommitRefs: true, Gitlinks: true, Symrefs: true}

var plainNames = []string{"a", "b", "c", "d", "e", "f", "dir", "src", "lib", "x.txt", "README", "main.go", "z", "ab", "abc", "a.b", "a-b", "a_b", "0", "longer-file-name.ext"}
var hostileNames = []string{"a b", " lead", "trail ", "q\"uote", "it's", "back\\slash", "co:lon", "[1]", "[2] x", "tab\there", "new\nline", "cr\rx", "\x01ctl", "\x7f", "\xff\xfe", "caf\xc3\xa9", "*", "?", "|pipe", "$(x)", "`x`", "~", "^", "@{", "-dash", "--include", "..x", "x..", "a\\", "{}", "<>", "&", ";", "#", "%s", "%d", "\xe2\x88\x9e", ".gitmodules", "x]", "(p)", "^{tree}", "~1", "R\\u0026D", "\\u003cb\\u003e", "\\\"", "\\\\", "\\n", "&amp;", "</script>", "\\x41", "%5C", "\\"}

func (g G) entryName(style int, long bool) string {
	if long && g.Rare(1, 50, "giantname") {
		// legal in a tree object, far beyond any buffer: the path that
		// `git rev-list --objects` prints for it exceeds 64 KiB
		// (lengths around multiples of the 4 KiB read buffers and around 64 KiB)
		return strings.Repeat("G", g.PickInt([]int{4053, 4054, 4055, 4056, 4057, 8149, 8150, 8151, 8152, 8193, 12246, 12288, 16342, 20000, 65494, 65495, 65496, 70000, 140000}, "giantlen"))
	}
	if long && g.Chance(1, 12, "longname") {
		n := g.Int(100, 400, "longlen")
		return strings.Repeat(g.PickStr([]string{"x", "y", "é", " "}, "longch"), n)[:n]
	}
	switch {
	case style == 0, style == 1 && g.Chance(3, 4, "plain"):
		return g.PickStr(plainNames, "pname")
	default:
		if g.Chance(1, 5, "randname") {
			b := g.Bytes(6, "namebytes")
			var sb strings.Builder
			for _, c := range b {
				if c == 0 || c == '/' {
					c = '_'
				}
				sb.WriteByte(c)
			}
			s := sb.String()
			if s == "" || s == "." || s == ".." || s == ".git" {
				s = "r" + s
			}
			return s
		}
		return g.PickStr(hostileNames, "hname")
	}
}

func fakeOID(seed string) string {
	h := sha1.Sum([]byte("gitlink:" + seed))
	return hex.EncodeToString(h[:])
}

var blobModes = []uint32{0o100644, 0o100644, 0o100755, 0o100664}

func ident(name string, secs int64, tz string) string {
	return fmt.Sprintf("%s <%s@example.com> %d %s", name, strings.ToLower(strings.ReplaceAll(name, " ", ".")), secs, tz)
}

// GenWorld draws a world.
func GenWorld(g G, o GenOpts) *World {
	w := &World{Layout: "loose"}

	// blobs
	var blobs []*Object
	nb := g.Int(0, o.MaxBlobs, "nblobs")
	for i := 0; i < nb; i++ {
		var body []byte
		switch g.Pick(4, "blobshape") {
		case 0:
			body = []byte{}
		case 1:
			body = []byte(fmt.Sprintf("blob %d\n", i))
		default:
			body = append([]byte(fmt.Sprintf("%d:", i)), g.Bytes(40, "blobbytes")...)
			if g.Chance(1, 6, "bigblob") {
				body = append(body, make([]byte, g.Int(100, 3000, "pad"))...)
			}
		}
		ob := NewObject(KBlob, body)
		if (o.DeclaredSizes || o.HugeSizes) && g.Chance(1, 3, "declare") {
			var sz uint64
			if o.HugeSizes {
				switch g.Pick(8, "hugeshape") {
				case 0:
					sz = 1<<32 - 2
				case 1:
					sz = 1<<32 - 1
				case 2:
					sz = 1 << 32
				case 3:
					sz = 1<<32 + 1
				case 4:
					sz = 1 << 33
				case 5:
					sz = 1 << 63
				case 6:
					sz = 1<<64 - 1
				default:
					sz = g.U64(1<<31, 1<<34, "hugesz")
				}
			} else {
				sz = g.U64(0, 20_000_000_000, "declsz")
			}
			ob.DeclaredSize = &sz
		}
		blobs = append(blobs, w.Add(ob))
	}

	// trees, bottom-up
	var trees []*Object
	nt := g.Int(0, o.MaxTrees, "ntrees")
	for i := 0; i < nt; i++ {
		ne := g.Int(0, o.MaxEntries, "nentries")
		used := map[string]bool{}
		var es []TreeEntry
		for j := 0; j < ne; j++ {
			name := g.entryName(o.NameStyle, o.LongNames)
			if used[name] {
				name = fmt.Sprintf("%s%d", name, j)
			}
			if used[name] {
				continue
			}
			used[name] = true
			kind := g.Pick(10, "ekind")
			switch {
			case kind <= 4 && len(blobs) > 0:
				b := blobs[g.Pick(len(blobs), "eblob")]
				es = append(es, TreeEntry{Mode: blobModes[g.Pick(len(blobModes), "bmode")], Name: name, OID: b.ID})
			case kind == 5 && len(blobs) > 0:
				b := blobs[g.Pick(len(blobs), "elink")]
				es = append(es, TreeEntry{Mode: 0o120000, Name: name, OID: b.ID})
			case kind == 6 && o.Gitlinks:
				es = append(es, TreeEntry{Mode: 0o160000, Name: name, OID: fakeOID(fmt.Sprint(i, j, name))})
			case kind >= 7:
				if len(trees) > 0 && !g.Chance(1, 8, "useempty") {
					// bias towards recent trees to get depth
					var t *Object
					if g.Bool("recent") {
						t = trees[len(trees)-1-g.Pick(min(3, len(trees)), "rtree")]
					} else {
						t = trees[g.Pick(len(trees), "etree")]
					}
					es = append(es, TreeEntry{Mode: 0o040000, Name: name, OID: t.ID})
				} else {
					es = append(es, TreeEntry{Mode: 0o040000, Name: name, OID: EmptyTreeID})
				}
			}
		}
		SortTreeEntries(es)
		ot := NewObject(KTree, EncodeTree(es))
		if ot.ID == EmptyTreeID && g.Bool("storeempty") {
			// sometimes the empty tree is only the built-in
			ot.Stored = false
		}
		trees = append(trees, w.Add(ot))
	}

	pickTree := func(label string) string {
		if len(trees) == 0 || g.Chance(1, 10, label+"empty") {
			return EmptyTreeID
		}
		if g.Bool(label + "recent") {
			return trees[len(trees)-1-g.Pick(min(3, len(trees)), label+"r")].ID
		}
		return trees[g.Pick(len(trees), label)].ID
	}

	// commits
	var commits []*Object
	nc := g.Int(0, o.MaxCommits, "ncommits")
	base := int64(g.Int(0, 2_000_000_000, "basedate"))
	for i := 0; i < nc; i++ {
		var parents []string
		if len(commits) > 0 {
			np := g.Pick(4, "nparents") // 0..3
			if np == 3 && o.Octopus && g.Chance(1, 4, "octopus") {
				np = g.Int(3, min(len(commits), 40), "noct")
			}
			if np > 0 && g.Chance(2, 3, "chain") {
				parents = append(parents, commits[len(commits)-1].ID)
			}
			seen := map[string]bool{}
			for _, p := range parents {
				seen[p] = true
			}

			for len(parents) < np && len(seen) < len(commits) {
				p := commits[g.Pick(len(commits), "parent")].ID
				if seen[p] {
					// keep drawing bounded: fall back to linear scan
					for _, c := range commits {
						if !seen[c.ID] {
							p = c.ID
							break
						}
					}
				}
				seen[p] = true
				parents = append(parents, p)
			}
		}
		if len(parents) > 0 && len(parents) < 40 && dupParentWanted(g, len(commits)) {
			// the same parent named twice: git counts every parent line
			parents = append(parents, parents[g.Pick(len(parents), "dupwhich")])
		}
		var date int64
		switch g.Pick(4, "dateshape") {
		case 0:
			date = base // all equal
		case 1:
			date = base + int64(i)*100 // increasing
		case 2:
			date = base - int64(i)*100 // children older than parents
			if date < 0 {
				date = 0
			}
		default:
			date = int64(g.Int(0, 2_100_000_000, "date"))
		}
		cs := CommitSpec{Tree: pickTree("ctree"), Parents: parents,
			Author: ident("A U Thor", date, "+0000"), Committer: ident("C O Mitter", date, "-0700"),
			Message: fmt.Sprintf("commit %d\n", i)}
		if o.ExtraHeaders && g.Rare(1, 12, "bigheader") {
			// a header block well beyond 4 KiB (large signature), followed by
			// a message that imitates headers
			lines := g.Int(60, 200, "siglines")
			var sb strings.Builder
			sb.WriteString("-----BEGIN PGP SIGNATURE-----\n")
			for k := 0; k < lines; k++ {
				sb.WriteString("iQIzBAABCAAdFiEE" + fakeOID(fmt.Sprint("sig", i, k)) + "0123456789abcdef\n")
			}
			sb.WriteString("-----END PGP SIGNATURE-----")
			cs.Extra = append(cs.Extra, Header{"gpgsig", sb.String()})
			cs.Message = "subject\n\nparent " + fakeOID("bigm1") + "\ntree " + fakeOID("bigm2") + "\n"
			if len(commits) > 0 && g.Bool("realparentinmsg") {
				cs.Message = "subject\n\nparent " + commits[g.Pick(len(commits), "msgparent")].ID + "\nlast line"
			}
		} else if o.ExtraHeaders {
			switch g.Pick(8, "extrahdr") {
			case 0:
				decoy := "parent " + fakeOID("decoy")
				cs.Extra = append(cs.Extra, Header{"gpgsig", "-----BEGIN PGP SIGNATURE-----\n\n" + decoy + "\ntree " + fakeOID("decoytree") + "\n-----END PGP SIGNATURE-----"})
			case 1:
				cs.Extra = append(cs.Extra, Header{"mergetag", "object " + fakeOID("mt") + "\ntype commit\ntag v0\ntagger T <t@e> 1 +0000\n\nparent " + fakeOID("mtp") + "\ntree " + fakeOID("mtt")})
			case 2:
				cs.Extra = append(cs.Extra, Header{"encoding", "ISO-8859-1"}, Header{"x-unknown", "parent\nparent " + fakeOID("u")})
			case 3:
				cs.Message = "subject\n\nparent " + fakeOID("m1") + "\ntree " + fakeOID("m2") + "\n\nparent " + fakeOID("m3") + "\n"
			case 4:
				cs.Message = ""
			case 5:
				cs.NoBlank = true
			case 6:
				cs.Message = "parent " + fakeOID("m4") + "\n" + strings.Repeat("long line ", g.Int(1, 300, "msglen"))
			case 7:
				// a message whose first line is indented (the blank separator is
				// then followed by a space), with header look-alikes in its first
				// paragraph and a last line without a blank
				cs.Message = " indented subject line\nparent " + fakeOID("m5") + "\ntree " + fakeOID("m6") + "\n\n body\nnospace"
				if len(commits) > 0 && g.Bool("indentrealparent") {
					cs.Message = " indented subject line\nparent " + commits[g.Pick(len(commits), "indentparent")].ID + "\n\nbody\n"
				}
			}
		}
		commits = append(commits, w.Add(NewObject(KCommit, EncodeCommit(cs))))
	}

	// annotated tags
	var tags []*Object
	ntags := g.Int(0, o.MaxTags, "ntags")
	for i := 0; i < ntags; i++ {
		var target *Object
		k := g.Pick(10, "tagtarget")
		switch {
		case k <= 3 && len(tags) > 0:
			if g.Bool("chain") {
				target = tags[len(tags)-1]
			} else {
				target = tags[g.Pick(len(tags), "ttag")]
			}
		case k == 4 && len(trees) > 0 && o.NonCommitRefs:
			target = trees[g.Pick(len(trees), "ttree")]
		case k == 5 && len(blobs) > 0 && o.NonCommitRefs:
			target = blobs[g.Pick(len(blobs), "tblob")]
		default:
			if len(commits) > 0 {
				target = commits[g.Pick(len(commits), "tcommit")]
			} else if len(blobs) > 0 {
				target = blobs[g.Pick(len(blobs), "tblob2")]
			} else if len(trees) > 0 {
				target = trees[g.Pick(len(trees), "ttree2")]
			}
		}
		if target == nil {
			break
		}
		ts := TagSpec{Object: target.ID, Type: target.Kind, Tag: fmt.Sprintf("t%d", i), Tagger: ident("T Agger", base+int64(i), "+0100"),
			Message: fmt.Sprintf("tag %d\n", i)}
		if o.ExtraHeaders && g.Rare(1, 12, "bigtagheader") {
			lines := g.Int(60, 160, "tagsiglines")
			var sb strings.Builder
			sb.WriteString("-----BEGIN PGP SIGNATURE-----\n")
			for k := 0; k < lines; k++ {
				sb.WriteString("iQIzBAABCAAdFiEE" + fakeOID(fmt.Sprint("tsig", i, k)) + "0123456789abcdef\n")
			}
			sb.WriteString("-----END PGP SIGNATURE-----")
			ts.Extra = append(ts.Extra, Header{"gpgsig", sb.String()})
			ts.Message = "object " + fakeOID("bigtm") + "\ntype tree\n\nobject " + fakeOID("bigtm2") + "\nno-space-last-line"
		} else if o.ExtraHeaders {
			switch g.Pick(6, "tagextra") {
			case 0:
				ts.Message = "object " + fakeOID("tm") + "\ntype tag\n\nobject " + fakeOID("tm2") + "\n"
			case 1:
				ts.Tagger = ""
			case 2:
				ts.NoBlank = true
			case 3:
				ts.Extra = append(ts.Extra, Header{"gpgsig", "-----BEGIN\nobject " + fakeOID("tg") + "\ntype tag\n-----END"})
			case 4:
				ts.Message = " indented first line\nobject " + fakeOID("tm3") + "\ntype blob\n\nrest\nnospace"
			}
		}
		tags = append(tags, w.Add(NewObject(KTag, EncodeTag(ts))))
	}

	// references
	nr := g.Int(0, o.MaxRefs, "nrefs")
	usedRef := map[string]bool{}
	for i := 0; i < nr; i++ {
		name := g.refName(o.ExoticRefNames)
		if refConflicts(usedRef, name) {
			continue
		}
		var target *Object
		isBranch := strings.HasPrefix(name, "refs/heads/") || strings.HasPrefix(name, "refs/remotes/")
		k := g.Pick(10, "reftarget")
		switch {
		case isBranch || k <= 4 || !o.NonCommitRefs:
			if len(commits) > 0 {
				target = commits[g.Pick(len(commits), "rcommit")]
			}
		case k <= 6 && len(tags) > 0:
			target = tags[g.Pick(len(tags), "rtag")]
		case k == 7 && len(trees) > 0:
			target = trees[g.Pick(len(trees), "rtree")]
		case k == 8 && len(blobs) > 0:
			target = blobs[g.Pick(len(blobs), "rblob")]
		default:
			if len(tags) > 0 {
				target = tags[len(tags)-1]
			} else if len(commits) > 0 {
				target = commits[len(commits)-1]
			}
		}
		if target == nil || (!target.Stored) {
			continue
		}
		usedRef[name] = true
		w.Refs = append(w.Refs, Ref{Name: name, OID: target.ID})
	}

	// a symbolic reference, as every clone has in refs/remotes/origin/HEAD
	if o.Symrefs && len(w.Refs) > 0 && g.Chance(1, 3, "symref") {
		t := w.Refs[g.Pick(len(w.Refs), "symtarget")]
		name := g.PickStr([]string{"refs/remotes/origin/HEAD", "refs/remotes/up/HEAD", "refs/heads/alias", "refs/tags/latest"}, "symname")
		if !refConflicts(usedRef, name) && t.Symref == "" {
			usedRef[name] = true
			w.Refs = append(w.Refs, Ref{Name: name, OID: t.OID, Symref: t.Name})
		}
	}

	// HEAD
	switch g.Pick(4, "head") {
	case 0:
		w.Head = "ref: refs/heads/unborn"
	case 1:
		if len(commits) > 0 {
			w.Head = commits[g.Pick(len(commits), "detached")].ID
		}
	default:
		for _, r := range w.Refs {
			if strings.HasPrefix(r.Name, "refs/heads/") {
				w.Head = "ref: " + r.Name
				break
			}
		}
	}
	if w.Head == "" {
		w.Head = "ref: refs/heads/main"
	}
	w.Extras.Noise = g.Chance(1, 3, "noise")
	return w
}

func dupParentWanted(g G, ncommits int) bool {
	return ncommits > 0 && g.Rare(1, 12, "dupparent")
}

func refConflicts(used map[string]bool, name string) bool {
	if used[name] || name == "refs/heads" || name == "refs/tags" {
		return true
	}
	for u := range used {
		if strings.HasPrefix(u, name+"/") || strings.HasPrefix(name, u+"/") {
			return true
		}
	}
	return false
}

var refNamespaces = []string{"refs/heads/", "refs/heads/", "refs/tags/", "refs/tags/", "refs/remotes/origin/", "refs/remotes/up/", "refs/notes/", "refs/pull/", "refs/changes/", "refs/", "refs/foo/", "refs/headstrong/", "refs/tagsx/"}
var refLeaves = []string{"main", "master", "dev", "feature/a", "feature/b", "v1", "v1.0", "release-1.2.3", "release-1.22.333", "x", "foo", "foobar", "foo/bar", "1/head", "2/merge", "12/3456/7", "commits", "heads", "stash"}
var exoticRefLeaves = []string{"q\"uote", "it's", "pi|pe", "(paren)", "caf\xc3\xa9", "\xff\xfe", "a,b", "a;b", "a&b", "a$b", "a%sb", "a#b", "{x}", "<x>", "a=b", "a+b", "@", "a@b", "-dash", "a!b", "\xe2\x88\x9e", "x]", "nb\u00a0sp", "cjk\u3000space", "nel\u0085x", "em\u2003sp", "zw\u200bsp", "bom\ufeffx"}

func (g G) refName(exotic bool) string {
	if g.Chance(1, 12, "stashref") {
		return "refs/stash"
	}
	ns := g.PickStr(refNamespaces, "refns")
	if exotic && g.Chance(1, 2, "exoticleaf") {
		return ns + g.PickStr(exoticRefLeaves, "xleaf")
	}
	return ns + g.PickStr(refLeaves, "leaf")
}

// AddBomb adds a "git bomb": depth levels of trees, each with breadth
// entries pointing at the level below; the bottom level holds breadth
// entries of one blob. It returns the top tree.
func AddBomb(w *World, depth, breadth int, blob *Object, tag string) *Object {
	levels := AddBombLevels(w, depth, breadth, blob, tag, nil)
	return levels[len(levels)-1]
}

// AddBombLevels is AddBomb with optional direct entries at chosen levels:
// extras[level] lists entries (named so that they sort after the subtree
// entries) that are added to the tree of that level (level 0 = bottom).
// It returns the tree of every level, bottom first.
func AddBombLevels(w *World, depth, breadth int, blob *Object, tag string, extras map[int][]TreeEntry) []*Object {
	var levels []*Object
	var es []TreeEntry
	for i := 0; i < breadth; i++ {
		es = append(es, TreeEntry{Mode: 0o100644, Name: fmt.Sprintf("f%03d%s", i, tag), OID: blob.ID})
	}
	es = append(es, extras[0]...)
	SortTreeEntries(es)
	cur := w.Add(NewObject(KTree, EncodeTree(es)))
	levels = append(levels, cur)
	for d := 1; d < depth; d++ {
		var ds []TreeEntry
		for i := 0; i < breadth; i++ {
			ds = append(ds, TreeEntry{Mode: 0o040000, Name: fmt.Sprintf("d%03d%s", i, tag), OID: cur.ID})
		}
		ds = append(ds, extras[d]...)
		SortTreeEntries(ds)
		cur = w.Add(NewObject(KTree, EncodeTree(ds)))
		levels = append(levels, cur)
	}
	return levels
}
