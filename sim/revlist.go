package sim

// Model of `git rev-list --objects --stdin [--date-order]` over a World.

import (
	"fmt"
	"sort"
	"strings"
)

type RevListFlags struct {
	Objects   bool
	Stdin     bool
	DateOrder bool
}

// FatalError is what the simulated git prints before exiting 128.
type FatalError struct{ Msg string }

func (e *FatalError) Error() string { return e.Msg }

// Chooser picks one of n currently eligible alternatives. The canonical
// choice is always 0.
type Chooser func(n int) int

func canonical(int) int { return 0 }

// RevList returns the output lines (without LF). On a fatal condition it
// returns the lines produced so far and a *FatalError.
func (w *World) RevList(roots []string, fl RevListFlags, chooseCommit, chooseObj Chooser) ([]string, error) {
	if chooseCommit == nil {
		chooseCommit = canonical
	}
	if chooseObj == nil {
		chooseObj = canonical
	}
	type pend struct{ id, name string }
	var pending []pend
	var tips []string
	tipSeen := map[string]bool{}
	get := func(id string) *Object {
		o := w.Get(id)
		if o == nil || o.Missing {
			return nil
		}
		return o
	}
	for _, r := range roots {
		o := get(r)
		if o == nil {
			return nil, &FatalError{fmt.Sprintf("fatal: bad object %s", r)}
		}
		for o.Kind == KTag {
			// git names a tag object after its own "tag" header
			tagName := ""
			for _, kv := range headerLines(o.Body) {
				if kv[0] == "tag" {
					tagName = kv[1]
					break
				}
			}
			pending = append(pending, pend{o.ID, tagName})
			ti := DecodeTag(o.Body)
			t := get(ti.Object)
			if t == nil {
				return nil, &FatalError{fmt.Sprintf("fatal: bad object %s", ti.Object)}
			}
			o = t
		}
		switch o.Kind {
		case KCommit:
			if !tipSeen[o.ID] {
				tipSeen[o.ID] = true
				tips = append(tips, o.ID)
			}
		default:
			pending = append(pending, pend{o.ID, ""})
		}
	}

	var lines []string
	var commitOrder []string
	info := map[string]CommitInfo{}
	ci := func(id string) CommitInfo {
		if c, ok := info[id]; ok {
			return c
		}
		c := DecodeCommit(w.Get(id).Body)
		info[id] = c
		return c
	}

	if fl.DateOrder {
		// collect the walked set
		set := map[string]bool{}
		var order []string
		stack := append([]string(nil), tips...)
		for len(stack) > 0 {
			id := stack[len(stack)-1]
			stack = stack[:len(stack)-1]
			if set[id] {
				continue
			}
			if get(id) == nil {
				// real git: "fatal: Failed to traverse parents" / missing object
				return lines, &FatalError{fmt.Sprintf("fatal: missing commit %s", id)}
			}
			if w.Get(id).Kind != KCommit {
				return lines, &FatalError{fmt.Sprintf("fatal: object %s is not a commit", id)}
			}
			set[id] = true
			order = append(order, id)
			ps := ci(id).Parents
			for i := len(ps) - 1; i >= 0; i-- {
				stack = append(stack, ps[i])
			}
		}
		indeg := map[string]int{}
		for _, id := range order {
			seenP := map[string]bool{}
			for _, p := range ci(id).Parents {
				if !seenP[p] {
					seenP[p] = true
					indeg[p]++
				}
			}
		}
		// eligible list kept sorted by (date desc, insertion seq asc)
		type el struct {
			id   string
			date int64
			seq  int
		}
		var elig []el
		seq := 0
		add := func(id string) {
			elig = append(elig, el{id, ci(id).CommitterDate, seq})
			seq++
			sort.SliceStable(elig, func(i, j int) bool {
				if elig[i].date != elig[j].date {
					return elig[i].date > elig[j].date
				}
				return elig[i].seq < elig[j].seq
			})
		}
		// git enqueues the tips in list order, which for equal dates is
		// the order they were given in
		for _, id := range tips {
			if indeg[id] == 0 {
				add(id)
			}
		}
		for len(elig) > 0 {
			k := chooseCommit(len(elig))
			e := elig[k]
			elig = append(elig[:k], elig[k+1:]...)
			commitOrder = append(commitOrder, e.id)
			seenP := map[string]bool{}
			for _, p := range ci(e.id).Parents {
				if seenP[p] {
					continue
				}
				seenP[p] = true
				indeg[p]--
				if indeg[p] == 0 {
					add(p)
				}
			}
		}
	} else {
		// default order: date-priority queue without the topological
		// constraint (a parent may precede another of its children).
		type el struct {
			id   string
			date int64
			seq  int
		}
		var q []el
		seen := map[string]bool{}
		seq := 0
		push := func(id string) error {
			if seen[id] {
				return nil
			}
			if get(id) == nil {
				return &FatalError{fmt.Sprintf("fatal: missing commit %s", id)}
			}
			seen[id] = true
			q = append(q, el{id, ci(id).CommitterDate, seq})
			seq++
			return nil
		}
		for _, t := range tips {
			if err := push(t); err != nil {
				return lines, err
			}
		}
		for len(q) > 0 {
			best := 0
			for i := range q {
				if q[i].date > q[best].date || (q[i].date == q[best].date && q[i].seq < q[best].seq) {
					best = i
				}
			}
			e := q[best]
			q = append(q[:best], q[best+1:]...)
			commitOrder = append(commitOrder, e.id)
			for _, p := range ci(e.id).Parents {
				if err := push(p); err != nil {
					return lines, err
				}
			}
		}
	}
	for _, id := range commitOrder {
		lines = append(lines, id)
	}
	if !fl.Objects {
		return lines, nil
	}
	for _, id := range commitOrder {
		pending = append(pending, pend{ci(id).Tree, ""})
	}

	printed := map[string]bool{}
	var fatal error
	var walkTree func(id, path string)
	walkTree = func(id, path string) {
		if fatal != nil || printed[id] {
			return
		}
		o := get(id)
		if o == nil {
			fatal = &FatalError{fmt.Sprintf("fatal: missing tree %s", id)}
			return
		}
		printed[id] = true
		lines = append(lines, id+" "+firstLine(path))
		es, err := DecodeTree(o.Body)
		if err != nil {
			fatal = &FatalError{"fatal: corrupt tree " + id}
			return
		}
		for _, e := range es {
			if fatal != nil {
				return
			}
			p := e.Name
			if path != "" {
				p = path + "/" + e.Name
			}
			switch {
			case e.IsGitlink():
			case e.IsTree():
				walkTree(e.OID, p)
			default:
				if printed[e.OID] {
					continue
				}
				if get(e.OID) == nil {
					fatal = &FatalError{fmt.Sprintf("fatal: missing blob %s", e.OID)}
					return
				}
				printed[e.OID] = true
				lines = append(lines, e.OID+" "+firstLine(p))
			}
		}
	}
	for len(pending) > 0 {
		k := chooseObj(len(pending))
		p := pending[k]
		pending = append(pending[:k], pending[k+1:]...)
		o := get(p.id)
		if o == nil {
			return lines, &FatalError{fmt.Sprintf("fatal: missing object %s", p.id)}
		}
		switch o.Kind {
		case KTag:
			if !printed[p.id] {
				printed[p.id] = true
				lines = append(lines, p.id+" "+p.name)
			}
		case KTree:
			walkTree(p.id, p.name)
			if fatal != nil {
				return lines, fatal
			}
		case KBlob:
			if !printed[p.id] {
				printed[p.id] = true
				lines = append(lines, p.id+" "+p.name)
			}
		}
	}
	return lines, nil
}

func firstLine(s string) string {
	if i := strings.IndexByte(s, '\n'); i >= 0 {
		return s[:i]
	}
	return s
}
