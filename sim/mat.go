package sim

// Materialiser: writes a World to disk as a real git repository, without
// porcelain (own zlib + SHA-1), so that real git can answer the one-shot
// queries and, in conformance runs, everything.

import (
	"bytes"
	"compress/zlib"
	"fmt"
	"os"
	"os/exec"
	"path/filepath"
	"sort"
	"strings"
)

// Site is a materialised world.
type Site struct {
	Root    string // scratch directory (removed by Close)
	GitDir  string // absolute
	WorkDir string // absolute; "" for bare
	Env     []string

	laterRefs []Ref // layout "bitmap": references written after the repack
}

func (s *Site) Close() {
	if s != nil && s.Root != "" {
		os.RemoveAll(s.Root)
	}
}

var scratchBase = func() string {
	// the driver's per-run directory (it removes it when the run ends)
	if d := os.Getenv("VERIF_SCRATCH"); d != "" {
		if st, err := os.Stat(d); err == nil && st.IsDir() {
			return d
		}
	}
	if st, err := os.Stat("/dev/shm"); err == nil && st.IsDir() {
		return "/dev/shm"
	}
	return os.TempDir()
}()

func writeLoose(objdir string, o *Object) error {
	var raw bytes.Buffer
	fmt.Fprintf(&raw, "%s %d\x00", o.Kind, len(o.Body))
	raw.Write(o.Body)
	var z bytes.Buffer
	zw, _ := zlib.NewWriterLevel(&z, zlib.BestSpeed)
	zw.Write(raw.Bytes())
	zw.Close()
	d := filepath.Join(objdir, o.ID[:2])
	if err := os.MkdirAll(d, 0o755); err != nil {
		return err
	}
	return os.WriteFile(filepath.Join(d, o.ID[2:]), z.Bytes(), 0o444)
}

// BaseEnv is the sanitised environment every git / git-sizer process of a
// scenario runs in: the host's configuration is never read.
func BaseEnv(root string) []string {
	env := []string{
		"HOME=" + filepath.Join(root, "home"),
		"XDG_CONFIG_HOME=" + filepath.Join(root, "xdg"),
		"GIT_CONFIG_SYSTEM=" + filepath.Join(root, "etc-gitconfig"),
		"LC_ALL=C",
		"TZ=UTC",
		"GIT_TERMINAL_PROMPT=0",
	}
	for _, k := range []string{"PATH", "TMPDIR", "VERIF_REAL_GIT", "VERIF_SHIM_PLAN", "VERIF_SHIM_LOG", "GOMAXPROCS"} {
		if v, ok := os.LookupEnv(k); ok {
			env = append(env, k+"="+v)
		}
	}
	return env
}

// Materialise writes w to a fresh scratch directory.
func Materialise(w *World) (*Site, error) {
	root, err := os.MkdirTemp(scratchBase, "vsim-")
	if err != nil {
		return nil, err
	}
	s := &Site{Root: root}
	fail := func(err error) (*Site, error) { s.Close(); return nil, err }

	if w.Bare {
		s.GitDir = filepath.Join(root, "repo.git")
	} else {
		s.WorkDir = filepath.Join(root, "repo")
		s.GitDir = filepath.Join(s.WorkDir, ".git")
		if err := os.MkdirAll(filepath.Join(s.WorkDir, "sub", "dir"), 0o755); err != nil {
			return fail(err)
		}
	}
	for _, d := range []string{"objects/info", "objects/pack", "refs/heads", "refs/tags", "info"} {
		if err := os.MkdirAll(filepath.Join(s.GitDir, d), 0o755); err != nil {
			return fail(err)
		}
	}
	os.MkdirAll(filepath.Join(root, "home"), 0o755)
	os.MkdirAll(filepath.Join(root, "xdg"), 0o755)

	objdir := filepath.Join(s.GitDir, "objects")
	for _, o := range w.Objects {
		if !o.Stored || o.Missing {
			continue
		}
		if err := writeLoose(objdir, o); err != nil {
			return fail(err)
		}
	}

	head := w.Head
	if head == "" {
		head = "ref: refs/heads/main"
	}
	if err := os.WriteFile(filepath.Join(s.GitDir, "HEAD"), []byte(head+"\n"), 0o644); err != nil {
		return fail(err)
	}

	// references
	refs := append([]Ref(nil), w.Refs...)
	for _, r := range w.Extras.Replace {
		refs = append(refs, Ref{Name: "refs/replace/" + r[0], OID: r[1]})
	}
	if w.Layout == "bitmap" {
		// every other reference is written only after the repack, so that
		// the bitmapped pack holds part of the history and the rest stays loose
		var first, later []Ref
		for i, r := range refs {
			if i%2 == 0 {
				first = append(first, r)
			} else {
				later = append(later, r)
			}
		}
		refs = first
		s.laterRefs = later
	}
	// symbolic references are always loose files
	var symrefs []Ref
	{
		var plain []Ref
		for _, r := range refs {
			if r.Symref != "" {
				symrefs = append(symrefs, r)
			} else {
				plain = append(plain, r)
			}
		}
		refs = plain
	}
	for _, r := range symrefs {
		p := filepath.Join(s.GitDir, filepath.FromSlash(r.Name))
		if err := os.MkdirAll(filepath.Dir(p), 0o755); err != nil {
			return fail(err)
		}
		if err := os.WriteFile(p, []byte("ref: "+r.Symref+"\n"), 0o644); err != nil {
			return fail(fmt.Errorf("writing symbolic ref %q: %w", r.Name, err))
		}
	}
	if w.Layout == "packed-refs" || w.Layout == "packed" {
		sort.Slice(refs, func(i, j int) bool { return refs[i].Name < refs[j].Name })
		var b bytes.Buffer
		b.WriteString("# pack-refs with: peeled fully-peeled sorted \n")
		for _, r := range refs {
			fmt.Fprintf(&b, "%s %s\n", r.OID, r.Name)
			// peel annotated tags
			t := w.Get(r.OID)
			peeled := ""
			for t != nil && t.Kind == KTag {
				peeled = DecodeTag(t.Body).Object
				t = w.Get(peeled)
			}
			if peeled != "" {
				fmt.Fprintf(&b, "^%s\n", peeled)
			}
		}
		if err := os.WriteFile(filepath.Join(s.GitDir, "packed-refs"), b.Bytes(), 0o644); err != nil {
			return fail(err)
		}
	} else {
		for _, r := range refs {
			p := filepath.Join(s.GitDir, filepath.FromSlash(r.Name))
			if err := os.MkdirAll(filepath.Dir(p), 0o755); err != nil {
				return fail(err)
			}
			if err := os.WriteFile(p, []byte(r.OID+"\n"), 0o644); err != nil {
				return fail(fmt.Errorf("writing ref %q: %w", r.Name, err))
			}
		}
	}

	// configuration
	var local strings.Builder
	fmt.Fprintf(&local, "[core]\n\trepositoryformatversion = 0\n\tbare = %v\n", w.Bare)
	if w.Config.Worktree != "" {
		local.WriteString("[extensions]\n\tworktreeConfig = true\n")
	}
	local.WriteString(w.Config.Local)
	if err := os.WriteFile(filepath.Join(s.GitDir, "config"), []byte(local.String()), 0o644); err != nil {
		return fail(err)
	}
	if w.Config.Worktree != "" {
		os.WriteFile(filepath.Join(s.GitDir, "config.worktree"), []byte(w.Config.Worktree), 0o644)
	}
	os.WriteFile(filepath.Join(root, "etc-gitconfig"), []byte(w.Config.System), 0o644)
	os.WriteFile(filepath.Join(root, "home", ".gitconfig"), []byte(w.Config.Global), 0o644)

	if w.Extras.Grafts != "" {
		os.WriteFile(filepath.Join(s.GitDir, "info", "grafts"), []byte(w.Extras.Grafts), 0o644)
	}
	if w.Extras.Shallow != "" {
		os.WriteFile(filepath.Join(s.GitDir, "shallow"), []byte(w.Extras.Shallow), 0o644)
	}

	s.Env = BaseEnv(root)
	if n := len(w.Config.Command); n > 0 {
		s.Env = append(s.Env, fmt.Sprintf("GIT_CONFIG_COUNT=%d", n))
		for i, kv := range w.Config.Command {
			s.Env = append(s.Env, fmt.Sprintf("GIT_CONFIG_KEY_%d=%s", i, kv.Key), fmt.Sprintf("GIT_CONFIG_VALUE_%d=%s", i, kv.Value))
		}
	}

	if w.Extras.Noise {
		// a reflog and, in a work tree, an index and a checked-out file
		os.MkdirAll(filepath.Join(s.GitDir, "logs"), 0o755)
		var lg bytes.Buffer
		for _, o := range w.Objects {
			if o.Kind == KCommit && o.Stored && !o.Missing {
				fmt.Fprintf(&lg, "%s %s N <n@example.com> 1600000000 +0000\tnoise\n", strings.Repeat("0", 40), o.ID)
			}
		}
		os.WriteFile(filepath.Join(s.GitDir, "logs", "HEAD"), lg.Bytes(), 0o644)
	}

	if w.Layout == "packed" || w.Layout == "promisor" {
		if out, err := s.Git(nil, "repack", "-adq"); err != nil {
			return fail(fmt.Errorf("repack: %v: %s", err, out))
		}
	}
	if w.Layout == "promisor" {
		// the pack of a partial clone: a pack-*.promisor marker beside it
		// (every object is present; nothing needs to be fetched)
		packs, _ := filepath.Glob(filepath.Join(s.GitDir, "objects", "pack", "pack-*.pack"))
		for _, pk := range packs {
			os.WriteFile(strings.TrimSuffix(pk, ".pack")+".promisor", nil, 0o644)
		}
	}
	if w.Layout == "bitmap" {
		// a pack with a reachability bitmap for what the first references
		// reach; everything else stays loose and gets its references now
		if out, err := s.Git(nil, "-c", "pack.writeBitmapHashCache=true", "repack", "-adbq"); err != nil {
			return fail(fmt.Errorf("repack -b: %v: %s", err, out))
		}
		for _, r := range s.laterRefs {
			p := filepath.Join(s.GitDir, filepath.FromSlash(r.Name))
			if err := os.MkdirAll(filepath.Dir(p), 0o755); err != nil {
				return fail(err)
			}
			if err := os.WriteFile(p, []byte(r.OID+"\n"), 0o644); err != nil {
				return fail(fmt.Errorf("writing ref %q: %w", r.Name, err))
			}
		}
	}
	return s, nil
}

// RealGit returns the path of the real git binary (never the shim).
func RealGit() string {
	if p := os.Getenv("VERIF_REAL_GIT"); p != "" {
		return p
	}
	p, err := exec.LookPath("git")
	if err != nil {
		panic(err)
	}
	return p
}

// Git runs real git in the site (GIT_DIR set) and returns stdout.
func (s *Site) Git(stdin []byte, args ...string) ([]byte, error) {
	cmd := exec.Command(RealGit(), args...)
	cmd.Env = append(append([]string(nil), s.Env...), "GIT_DIR="+s.GitDir)
	if s.WorkDir != "" {
		cmd.Dir = s.WorkDir
	} else {
		cmd.Dir = s.GitDir
	}
	if stdin != nil {
		cmd.Stdin = bytes.NewReader(stdin)
	}
	var errb bytes.Buffer
	cmd.Stderr = &errb
	out, err := cmd.Output()
	if err != nil {
		return out, fmt.Errorf("%v: %s", err, errb.String())
	}
	return out, nil
}
