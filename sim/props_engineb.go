package sim

// C13 (the repository measured is the real one, however addressed) and
// C17 (read-only, deterministic, race-free): engine B, real processes.

import (
	"bytes"
	"crypto/sha256"
	"fmt"
	"io/fs"
	"os"
	"path/filepath"
	"sort"
	"strings"
	"time"

	"pgregory.net/rapid"
)

// ---------- C13 ----------

type c13Params struct {
	Format string `json:"format"`
}

func addReplaceAndGrafts(g G, w *World) {
	byKind := map[string][]*Object{}
	for _, o := range w.Objects {
		if o.Stored {
			byKind[o.Kind] = append(byKind[o.Kind], o)
		}
	}
	n := g.Int(0, 3, "nreplace")
	seen := map[string]bool{}
	for i := 0; i < n; i++ {
		k := g.PickStr([]string{KCommit, KCommit, KTree, KBlob}, "replacekind")
		os := byKind[k]
		if len(os) < 2 {
			continue
		}
		a := os[g.Pick(len(os), "replfrom")]
		b := os[g.Pick(len(os), "replto")]
		if a.ID == b.ID || seen[a.ID] {
			continue
		}
		seen[a.ID] = true
		w.Extras.Replace = append(w.Extras.Replace, [2]string{a.ID, b.ID})
	}
	cs := byKind[KCommit]
	if len(cs) >= 2 && g.Chance(1, 2, "grafts") {
		var b strings.Builder
		ng := g.Int(1, 3, "ngrafts")
		for i := 0; i < ng; i++ {
			c := cs[g.Pick(len(cs), "graftcommit")]
			b.WriteString(c.ID)
			np := g.Int(0, 2, "graftparents") // 0 = drop all parents, else redirect/add
			for j := 0; j < np; j++ {
				p := cs[g.Pick(len(cs), "graftparent")]
				if p.ID != c.ID {
					b.WriteString(" " + p.ID)
				}
			}
			b.WriteString("\n")
		}
		w.Extras.Grafts = b.String()
	}
}

func judgeC13(c *Ctx, sc *Scenario) *Violation {
	var p c13Params
	decodeParams(sc, &p)
	w := sc.World
	c.Stats.Evaluations++
	site, err := Materialise(w)
	if err != nil {
		return nil
	}
	defer site.Close()
	// expected numbers on the real object graph: all references (including refs/replace/*)
	gm := NewGroupModel()
	sel := &Selection{GM: gm}
	roots := walkedRoots(w, sel, nil)
	ex := w.Expect(roots)

	type mode struct {
		name string
		sc   Scenario
		site *Site
		opt  BOpts
	}
	var modes []mode
	base := *sc
	base.Inv.Cwd, base.Inv.Env = "top", nil
	modes = append(modes, mode{name: "top of work tree", sc: base, site: site})
	if site.WorkDir != "" {
		m := base
		m.Inv.Cwd = "subdir"
		modes = append(modes, mode{name: "subdirectory", sc: m, site: site})
		m2 := base
		m2.Inv.Cwd = "gitdir"
		modes = append(modes, mode{name: "inside .git", sc: m2, site: site})
	}
	if site.WorkDir != "" {
		ms := base
		ms.Inv.Cwd = "symlink"
		modes = append(modes, mode{name: "subdirectory entered through a symbolic link", sc: ms, site: site})
		ms2 := base
		ms2.Inv.Cwd = "symlink"
		ms2.Inv.Env = map[string]string{"GIT_DIR": "../../.git"}
		modes = append(modes, mode{name: "GIT_DIR=../../.git in a subdirectory entered through a symbolic link", sc: ms2, site: site})
	}
	m3 := base
	m3.Inv.Cwd = "elsewhere"
	m3.Inv.Env = map[string]string{"GIT_DIR": "$GITDIR"}
	modes = append(modes, mode{name: "GIT_DIR absolute from an unrelated directory", sc: m3, site: site})
	m4 := base
	m4.Inv.Cwd = "elsewhere"
	rel, _ := filepath.Rel(site.Root, site.GitDir)
	m4.Inv.Env = map[string]string{"GIT_DIR": rel}
	modes = append(modes, mode{name: "GIT_DIR relative from an unrelated directory", sc: m4, site: site})
	// inherited environment that would graft or replace: GIT_GRAFT_FILE pointing at a graft file
	var cids []string
	for _, o := range w.Objects {
		if o.Kind == KCommit && o.Stored {
			cids = append(cids, o.ID)
		}
	}
	if len(cids) >= 2 {
		gf := filepath.Join(site.Root, "inherited-grafts")
		var gb strings.Builder
		for i, id := range cids {
			// drop the parents of every other commit, redirect the others to the first commit
			if i%2 == 0 {
				gb.WriteString(id + "\n")
			} else if id != cids[0] {
				gb.WriteString(id + " " + cids[0] + "\n")
			}
		}
		os.WriteFile(gf, []byte(gb.String()), 0o644)
		me := base
		me.Inv.Env = map[string]string{"GIT_GRAFT_FILE": gf}
		modes = append(modes, mode{name: "inherited GIT_GRAFT_FILE in the environment", sc: me, site: site})
	}
	// bare twin
	bw := w.Clone()
	bw.Bare = !w.Bare
	bsite, err := Materialise(bw)
	if err == nil {
		defer bsite.Close()
		mb := base
		mb.World = bw
		modes = append(modes, mode{name: fmt.Sprintf("the same repository with bare=%v", bw.Bare), sc: mb, site: bsite})
	}
	// git -C <dir> sizer
	mg := base
	mg.Inv.Cwd = "elsewhere"
	modes = append(modes, mode{name: "git -C <dir> sizer", sc: mg, site: site, opt: BOpts{ViaGit: true}})
	if site.WorkDir != "" {
		mg2 := base
		mg2.Inv.Cwd = "elsewhere"
		modes = append(modes, mode{name: "git -C <subdir> sizer", sc: mg2, site: site, opt: BOpts{ViaGit: true, ExtraEnv: []string{"subdir"}}})
	}
	// linked worktree
	var firstCommit string
	for _, o := range w.Objects {
		if o.Kind == KCommit && o.Stored {
			firstCommit = o.ID
			break
		}
	}
	if firstCommit != "" && !w.Bare {
		lw := w.Clone()
		lsite, err := Materialise(lw)
		if err == nil {
			defer lsite.Close()
			wt := filepath.Join(lsite.Root, "linked")
			if _, err := lsite.Git(nil, "worktree", "add", "--detach", "--no-checkout", wt, firstCommit); err == nil {
				ml := base
				ml.World = lw
				ls := *lsite
				ls.WorkDir = wt
				modes = append(modes, mode{name: "linked worktree", sc: ml, site: &ls})
				mw := ml
				mw.Inv.Cwd = "elsewhere"
				mw.Inv.Env = map[string]string{"GIT_DIR": filepath.Join(lsite.GitDir, "worktrees", "linked")}
				modes = append(modes, mode{name: "GIT_DIR = git dir of the linked worktree", sc: mw, site: &ls})
				c.Stats.Probe("mode-linked-worktree")
				// what is per worktree stays per worktree: HEAD given as a ROOT
				// is the linked worktree's own (detached) HEAD, however the
				// worktree is addressed
				lex := lw.Expect([]string{firstCommit})
				for _, hsc := range []Scenario{ml, mw} {
					hsc.Inv.Args = append(append([]string(nil), hsc.Inv.Args...), "HEAD")
					hr := RunB(&hsc, &ls, BOpts{})
					c.Stats.CLIRuns++
					c.Stats.Probe("linked-worktree-HEAD-as-ROOT-runs")
					if hr.Panic != "" || hr.Hang || hr.Failed {
						return &Violation{"C13/run-failed", fmt.Sprintf("linked worktree, ROOT HEAD (cwd %s): %s %s %s", hsc.Inv.Cwd, hr.Err, firstLines(hr.Panic, 6), firstBytes(hr.Stderr, 300))}
					}
					hg, err := ParseJSONObject(hr.Stdout)
					if err != nil {
						return &Violation{"C13/bad-json", err.Error()}
					}
					if bad := lex.CompareV1(hg, AllNumericFields); len(bad) > 0 {
						sort.Strings(bad)
						return &Violation{"C13/per-worktree-HEAD:" + strings.SplitN(bad[0], ":", 2)[0],
							fmt.Sprintf("ROOT HEAD in a linked worktree whose HEAD is %s (cwd %s): %s", firstCommit, hsc.Inv.Cwd, strings.Join(bad, "; "))}
					}
				}
			} else {
				c.Stats.Probe("git-worktree-add-failed")
			}
		}
	}
	var ref []byte
	var refName string
	for _, m := range modes {
		msc := m.sc
		var res *Result
		if m.opt.ViaGit {
			res = runViaGit(&msc, m.site, len(m.opt.ExtraEnv) > 0)
		} else {
			res = RunB(&msc, m.site, m.opt)
		}
		c.Stats.CLIRuns++
		c.Stats.Probe("mode-" + m.name)
		if res.Panic != "" {
			return &Violation{"C13/panic", m.name + ": " + firstLines(res.Panic, 8)}
		}
		if res.Hang {
			return &Violation{"C13/hang", m.name}
		}
		if res.Failed {
			return &Violation{"C13/run-failed", fmt.Sprintf("%s: %s: %s", m.name, res.Err, firstBytes(res.Stderr, 400))}
		}
		if ref == nil {
			ref, refName = res.Stdout, m.name
			got, err := ParseJSONObject(res.Stdout)
			if err != nil {
				return &Violation{"C13/bad-json", err.Error()}
			}
			if bad := ex.CompareV1(got, AllNumericFields); len(bad) > 0 {
				sort.Strings(bad)
				return &Violation{"C13/not-the-stored-graph:" + strings.SplitN(bad[0], ":", 2)[0],
					fmt.Sprintf("%s: %s (replace refs %v, grafts %q)", m.name, strings.Join(bad, "; "), w.Extras.Replace, w.Extras.Grafts)}
			}
			if n, ok := jsonUint(got["reference_count"]); !ok || n != uint64(len(w.AllRefs())) {
				return &Violation{"C13/reference-count", fmt.Sprintf("reference_count %v, repository has %d references", got["reference_count"], len(w.AllRefs()))}
			}
			continue
		}
		if !bytes.Equal(res.Stdout, ref) {
			return &Violation{"C13/addressing-changes-report", fmt.Sprintf("%q vs %q:\n%s\n---\n%s", refName, m.name, firstBytes(ref, 700), firstBytes(res.Stdout, 700))}
		}
	}
	// a real shallow clone is refused
	if ex.MaxHistoryDepth >= 2 && len(w.Refs) > 0 {
		var branch string
		for _, r := range w.Refs {
			if strings.HasPrefix(r.Name, "refs/heads/") && w.Get(r.OID).Kind == KCommit {
				branch = strings.TrimPrefix(r.Name, "refs/heads/")
				break
			}
		}
		if branch != "" {
			dst := filepath.Join(site.Root, "shallow-clone")
			if _, err := site.Git(nil, "clone", "-q", "--depth", "1", "--no-checkout", "--branch", branch, "file://"+site.GitDir, dst); err == nil {
				if _, err := os.Stat(filepath.Join(dst, ".git", "shallow")); err == nil {
					ssite := &Site{Root: site.Root, WorkDir: dst, GitDir: filepath.Join(dst, ".git"), Env: site.Env}
					ssc := base
					res := RunB(&ssc, ssite, BOpts{})
					c.Stats.CLIRuns++
					c.Stats.Probe("shallow-clone-runs")
					if !res.Failed || len(res.Stdout) > 0 || !res.BStderrOK() {
						return &Violation{"C13/shallow-clone-measured", fmt.Sprintf("failed=%v stdout %d bytes stderr %q", res.Failed, len(res.Stdout), firstBytes(res.Stderr, 200))}
					}
					// the shallow file as another tool may have left it: the
					// same entries without the final newline, or with CRLF-free
					// blank lines around them (git itself still reads it as shallow)
					shf := filepath.Join(dst, ".git", "shallow")
					if orig, err := os.ReadFile(shf); err == nil && len(bytes.TrimSpace(orig)) >= 40 {
						for vi, variant := range [][]byte{bytes.TrimRight(orig, "\n"), append([]byte("\n"), orig...)} {
							os.WriteFile(shf, variant, 0o644)
							if out, err := ssite.Git(nil, "rev-parse", "--is-shallow-repository"); err == nil && strings.TrimSpace(string(out)) == "true" {
								vr := RunB(&ssc, ssite, BOpts{})
								c.Stats.CLIRuns++
								c.Stats.Probe("shallow-file-variant-runs")
								if vr.Panic != "" || !vr.Failed || len(vr.Stdout) > 0 || !vr.BStderrOK() {
									os.WriteFile(shf, orig, 0o644)
									return &Violation{"C13/shallow-clone-measured", fmt.Sprintf("shallow file variant %d (%q): failed=%v stdout %d bytes stderr %q %s", vi, firstBytes(variant, 90), vr.Failed, len(vr.Stdout), firstBytes(vr.Stderr, 200), firstLines(vr.Panic, 4))}
								}
							}
						}
						os.WriteFile(shf, orig, 0o644)
					}
					// the same shallow clone addressed through a linked worktree
					// (its own git dir is <main>/.git/worktrees/<name>; the
					// shallow marker lives in the common git dir)
					lwt := filepath.Join(site.Root, "shallow-linked")
					if _, err := ssite.Git(nil, "worktree", "add", "--detach", "--no-checkout", lwt, "HEAD"); err == nil {
						ls := &Site{Root: site.Root, WorkDir: lwt, GitDir: filepath.Join(dst, ".git"), Env: site.Env}
						lsc := base
						for _, how := range []string{"cwd", "GIT_DIR"} {
							lsc.Inv.Env = nil
							lsc.Inv.Cwd = "top"
							if how == "GIT_DIR" {
								lsc.Inv.Cwd = "elsewhere"
								lsc.Inv.Env = map[string]string{"GIT_DIR": filepath.Join(dst, ".git", "worktrees", "shallow-linked")}
							}
							res := RunB(&lsc, ls, BOpts{})
							c.Stats.CLIRuns++
							c.Stats.Probe("shallow-clone-via-linked-worktree-runs")
							if res.Panic != "" || !res.Failed || len(res.Stdout) > 0 || !res.BStderrOK() {
								return &Violation{"C13/shallow-clone-measured", fmt.Sprintf("linked worktree of a shallow clone (%s): failed=%v stdout %d bytes stderr %q", how, res.Failed, len(res.Stdout), firstBytes(res.Stderr, 300))}
							}
						}
					}
				} else {
					c.Stats.Probe("clone-depth-1-not-shallow")
				}
			} else {
				c.Stats.Probe("git-clone-depth-1-failed")
			}
		}
	}
	if len(w.Extras.Replace) > 0 || w.Extras.Grafts != "" {
		c.Stats.Nontrivial[sc.Hash()] = true
	}
	return nil
}

// runViaGit runs `git -C <dir> sizer ...` with git-sizer on PATH.
func runViaGit(sc *Scenario, site *Site, subdir bool) *Result {
	bin := os.Getenv("VERIF_GITSIZER_BIN")
	dir := site.WorkDir
	if dir == "" {
		dir = site.GitDir
	} else if subdir {
		dir = filepath.Join(dir, "sub", "dir")
	}
	s2 := *site
	var env []string
	for _, kv := range site.Env {
		if strings.HasPrefix(kv, "PATH=") {
			kv = "PATH=" + os.Getenv("VERIF_SHIMDIR") + string(os.PathListSeparator) + filepath.Dir(bin) + string(os.PathListSeparator) + kv[5:]
		}
		env = append(env, kv)
	}
	s2.Env = env
	v := *sc
	v.Inv.Args = append([]string{"-C", dir, "sizer"}, sc.Inv.Args...)
	return runBinary(&v, &s2, RealGit())
}

// runBinary is RunB with an explicit program.
func runBinary(sc *Scenario, site *Site, prog string) *Result {
	old := os.Getenv("VERIF_GITSIZER_BIN")
	os.Setenv("VERIF_GITSIZER_BIN", prog)
	defer os.Setenv("VERIF_GITSIZER_BIN", old)
	return RunB(sc, site, BOpts{})
}

func checkC13(c *Ctx, rt *rapid.T) {
	g := G{rt}
	opts := DefaultGen
	opts.NameStyle = 0
	opts.MaxRefs = 6
	w := GenWorld(g, opts)
	w.Extras.Noise = true
	addReplaceAndGrafts(g, w)
	if g.Chance(1, 3, "usereplacerefs") {
		// git's default spelled out somewhere in the configuration: it must
		// not re-enable what git-sizer switched off
		switch g.Pick(4, "usereplacescope") {
		case 0:
			w.Config.Local += "[core]\n\tuseReplaceRefs = true\n"
		case 1:
			w.Config.Global += "[core]\n\tuseReplaceRefs = true\n"
		case 2:
			w.Config.System += "[core]\n\tuseReplaceRefs = true\n"
		default:
			w.Config.Command = append(w.Config.Command, ConfigKV{Key: "core.useReplaceRefs", Value: "true"})
		}
	}
	w.Bare = g.Chance(1, 4, "bare")
	sc := &Scenario{Format: 1, Property: "C13", Engine: "B", World: w, Inv: Invocation{Args: []string{"--json", "--no-progress"}, Cwd: "top"}, Params: c13Params{Format: "json1"}}
	if v := judgeC13(c, sc); v != nil {
		c.Fail(rt, sc, v.Class, v.Detail)
	}
}

// ---------- C17 ----------

type c17Params struct {
	Variants int `json:"variants"`
}

// digestTree returns a digest of every path below root.
func digestTree(root string) (string, int) {
	h := sha256.New()
	n := 0
	filepath.WalkDir(root, func(p string, d fs.DirEntry, err error) error {
		if err != nil {
			fmt.Fprintf(h, "ERR %s\n", p)
			return nil
		}
		rel, _ := filepath.Rel(root, p)
		info, err := d.Info()
		if err != nil {
			fmt.Fprintf(h, "ERR %s\n", rel)
			return nil
		}
		n++
		switch {
		case d.IsDir():
			fmt.Fprintf(h, "D %s %o\n", rel, info.Mode().Perm())
		case info.Mode()&fs.ModeSymlink != 0:
			t, _ := os.Readlink(p)
			fmt.Fprintf(h, "L %s %s\n", rel, t)
		default:
			b, _ := os.ReadFile(p)
			fmt.Fprintf(h, "F %s %o %d %x\n", rel, info.Mode().Perm(), len(b), sha256.Sum256(b))
		}
		return nil
	})
	return fmt.Sprintf("%x", h.Sum(nil)), n
}

func raceLogBytes() int64 {
	// GORACE=log_path=<out>/race → files race.<pid>
	dir := *flagOut
	if dir == "" {
		return 0
	}
	ms, _ := filepath.Glob(filepath.Join(dir, "race.*"))
	var n int64
	for _, m := range ms {
		if st, err := os.Stat(m); err == nil {
			n += st.Size()
		}
	}
	return n
}

func judgeC17(c *Ctx, sc *Scenario) *Violation {
	w := sc.World
	c.Stats.Evaluations++
	site, err := Materialise(w)
	if err != nil {
		return nil
	}
	defer site.Close()
	if !verifyRoots(c, site, sc.Inv.Roots) {
		return nil
	}
	if gm, _, err := groupModelFor(site); err != nil || !groupsUsable(gm) {
		c.Stats.Probe("generated-config-unusable (skipped)")
		return nil
	}
	// a work tree with an index and files, so that "read-only" has something to break
	if site.WorkDir != "" {
		for _, o := range w.Objects {
			if o.Kind == KTree && o.Stored {
				if _, err := site.Git(nil, "read-tree", o.ID); err == nil {
					c.Stats.Probe("index-present")
				}
				break
			}
		}
		// check the index out and make its cached stat data stale: any git
		// command that refreshes the index (git status, diff, ...) would rewrite it
		if _, err := site.Git(nil, "checkout-index", "-a", "-f"); err == nil {
			old := time.Unix(1_200_000_000, 0)
			filepath.WalkDir(site.WorkDir, func(p string, d fs.DirEntry, err error) error {
				if err == nil && !d.IsDir() && !strings.Contains(p, string(filepath.Separator)+".git"+string(filepath.Separator)) {
					os.Chtimes(p, old, old)
				}
				return nil
			})
			c.Stats.Probe("work-tree-checked-out-with-stale-index")
		}
		os.WriteFile(filepath.Join(site.WorkDir, "untracked.txt"), []byte("untracked\n"), 0o644)
		os.WriteFile(filepath.Join(site.WorkDir, "sub", "dir", "file"), []byte("x\n"), 0o644)
	}
	target := site.WorkDir
	if target == "" {
		target = site.GitDir
	}
	before, nfiles := digestTree(target)
	hbefore, _ := digestTree(filepath.Join(site.Root, "home"))

	var ref []byte
	var refDesc string
	cmp := func(desc string, res *Result) *Violation {
		if res.Panic != "" {
			cls := "C17/panic"
			if strings.HasPrefix(res.Panic, "DATA RACE") {
				cls = "C17/data-race"
			}
			return &Violation{cls, desc + ": " + firstLines(res.Panic, 40)}
		}
		if res.Hang {
			return &Violation{"C17/hang", desc}
		}
		if res.Failed {
			return &Violation{"C17/run-failed", desc + ": " + res.Err + " " + string(firstBytes(res.Stderr, 300))}
		}
		if ref == nil {
			ref, refDesc = res.Stdout, desc
			return nil
		}
		if !bytes.Equal(res.Stdout, ref) {
			return &Violation{"C17/nondeterministic-output", fmt.Sprintf("%s vs %s:\n%s\n---\n%s", refDesc, desc, firstBytes(ref, 600), firstBytes(res.Stdout, 600))}
		}
		return nil
	}
	// engine B: the -race build at GOMAXPROCS 1 and 16 (race reports, read-only),
	// then the plain build 12 more times at GOMAXPROCS 2..16 with proxy jitter on
	// every other run (schedule-dependent output shows up as a difference)
	jitter := func(b *Scenario, i int) {
		b.Plan = Plan{Peers: map[string]*PeerPlan{}}
		if i%2 == 1 {
			for _, k := range peerKinds {
				b.Plan.Peers[k] = &PeerPlan{Chunks: []int{1 + 7*i}, Delays: []int{i}}
			}
		}
	}
	raceGmps := []int{1, 16}
	if os.Getenv("VERIF_C17_ENGINE_A_ONLY") != "" { // debugging aid: judge the in-process variants alone
		raceGmps = nil
	}
	for i, gmp := range raceGmps {
		b := *sc
		jitter(&b, i)
		res := RunB(&b, site, BOpts{Race: true, GOMAXPROCS: gmp})
		c.Stats.CLIRuns++
		c.Stats.Probe(fmt.Sprintf("engine-B-race-run-GOMAXPROCS-%d", gmp))
		if v := cmp(fmt.Sprintf("real binary (-race), GOMAXPROCS=%d, proxy jitter=%v", gmp, i%2 == 1), res); v != nil {
			return v
		}
	}
	if os.Getenv("VERIF_GITSIZER_BIN") != "" && os.Getenv("VERIF_C17_ENGINE_A_ONLY") == "" {
		for i, gmp := range []int{2, 3, 4, 5, 8, 16, 2, 3, 4, 5, 2, 4} {
			b := *sc
			jitter(&b, i)
			if i == 3 || i == 8 {
				// a slow gitconfig lookup (correct answers, 400 ms late) must not change the report
				b.Plan.Oneshot = []OneshotFault{{Match: "config --get", Nth: -1, AtByte: -1, DelayMS: 400}}
				c.Stats.Probe("engine-B-repetitions-with-slow-config")
			}
			res := RunB(&b, site, BOpts{GOMAXPROCS: gmp})
			c.Stats.CLIRuns++
			c.Stats.Probe("engine-B-plain-repetitions")
			if v := cmp(fmt.Sprintf("real binary, repetition %d, GOMAXPROCS=%d, proxy jitter=%v", i, gmp, i%2 == 1), res); v != nil {
				return v
			}
		}
	}
	after, _ := digestTree(target)
	hafter, _ := digestTree(filepath.Join(site.Root, "home"))
	if before != after {
		return &Violation{"C17/repository-modified", fmt.Sprintf("the digest of %d paths below the repository changed after running git-sizer %q", nfiles, sc.Inv.Args)}
	}
	if hbefore != hafter {
		return &Violation{"C17/home-modified", "files below $HOME changed"}
	}
	// engine A (race build), same delivery order, different chunking / delays / pipe capacities
	r0 := raceLogBytes()
	for i, pl := range sc.planVariants() {
		a := *sc
		a.Plan = pl
		res := RunA(c.T, c.H, &a, site)
		c.Stats.AddResult(res)
		if v := cmp(fmt.Sprintf("in-process, plan variant %d", i), res); v != nil {
			sc.Plan = pl
			return v
		}
		if r1 := raceLogBytes(); r1 != r0 {
			sc.Plan = pl
			return &Violation{"C17/data-race", fmt.Sprintf("the race detector reported a data race during in-process plan variant %d (see the worker's race.* log)", i)}
		}
	}
	// the same run under schedules for the yield points inside git-sizer
	// itself (who proceeds at each lock, channel operation and goroutine
	// start): a fixed family plus two derived from the scenario
	if vs := sc.planVariants(); len(vs) > 0 {
		h := fnv64(sc.Hash())
		var derived [2][]int
		for k := range derived {
			n := 3 + int(h%11)
			for i := 0; i < n; i++ {
				h = splitmix64(h)
				y := 0
				if h%3 == 0 {
					y = 1 + int((h>>8)%3)
				}
				derived[k] = append(derived[k], y)
			}
		}
		for _, ys := range [][]int{{1}, {0, 1}, {1, 0, 0}, {2, 0, 1, 0, 0}, {0, 0, 0, 0, 1}, {3, 1}, derived[0], derived[1]} {
			a := *sc
			a.Plan = vs[0]
			a.Plan.GoYields = ys
			res := RunA(c.T, c.H, &a, site)
			c.Stats.AddResult(res)
			c.Stats.Probe("in-process-goroutine-schedule-variants")
			if v := cmp(fmt.Sprintf("in-process, goroutine schedule %v at git-sizer's own yield points", ys), res); v != nil {
				sc.Plan = a.Plan
				return v
			}
			if r1 := raceLogBytes(); r1 != r0 {
				sc.Plan = a.Plan
				return &Violation{"C17/data-race", fmt.Sprintf("the race detector reported a data race under goroutine schedule %v", ys)}
			}
		}
	}
	after2, _ := digestTree(target)
	if before != after2 {
		return &Violation{"C17/repository-modified", "the repository changed during the in-process runs"}
	}
	c.Stats.Nontrivial[sc.Hash()] = true
	return nil
}

func (sc *Scenario) planVariants() []Plan {
	var p struct {
		Plans []Plan `json:"plans"`
	}
	decodeParams(sc, &p)
	return p.Plans
}

func checkC17(c *Ctx, rt *rapid.T) {
	g := G{rt}
	opts := DefaultGen
	w := GenWorld(g, opts)
	w.Extras.Noise = true
	if g.Chance(1, 3, "packed") {
		w.Layout = g.PickStr([]string{"packed", "packed-refs", "bitmap", "promisor"}, "layout")
	}
	if g.Chance(2, 3, "ties") {
		// ties: several equally large maximal blobs side by side, equally wide
		// trees, equally deep tag chains - whichever is named must not depend on
		// the schedule
		n := g.Int(2, 8, "nties")
		var es []TreeEntry
		for i := 0; i < n; i++ {
			body := append([]byte(fmt.Sprintf("tie %02d ", i)), make([]byte, 4000)...)
			b := w.Add(NewObject(KBlob, body))
			es = append(es, TreeEntry{Mode: 0o100644, Name: fmt.Sprintf("tie%02d.bin", i), OID: b.ID})
		}
		SortTreeEntries(es)
		t := w.Add(NewObject(KTree, EncodeTree(es)))
		cs := CommitSpec{Tree: t.ID, Author: ident("A", 1600000000, "+0000"), Committer: ident("C", 1600000000, "+0000"), Message: "ties\n"}
		co := w.Add(NewObject(KCommit, EncodeCommit(cs)))
		if !refConflicts(refSet(w), "refs/heads/ties") {
			w.Refs = append(w.Refs, Ref{Name: "refs/heads/ties", OID: co.ID})
		}
		for i := 0; i < g.Int(0, 3, "tietags"); i++ {
			ts := TagSpec{Object: co.ID, Type: KCommit, Tag: fmt.Sprintf("tie%d", i), Tagger: ident("T", 1600000000, "+0000"), Message: "tie\n"}
			tg := w.Add(NewObject(KTag, EncodeTag(ts)))
			name := fmt.Sprintf("refs/tags/tie%d", i)
			if !refConflicts(refSet(w), name) {
				w.Refs = append(w.Refs, Ref{Name: name, OID: tg.ID})
			}
		}
	}
	if g.Rare(1, 5, "widetrees") {
		// consecutive objects of 33-63 KB each (a flat directory of 1000-1900
		// files changed in successive commits): buffers that are recycled
		// between one object and the next would be written while still read
		n := g.Int(1000, 1900, "wideentries")
		e0 := w.Add(NewObject(KBlob, []byte{}))
		e1 := w.Add(NewObject(KBlob, []byte("x\n")))
		prev := ""
		for k := 0; k < g.Int(2, 4, "widecommits"); k++ {
			es := make([]TreeEntry, 0, n)
			for i := 0; i < n; i++ {
				oid := e0.ID
				if i == k*7 {
					oid = e1.ID
				}
				es = append(es, TreeEntry{Mode: 0o100644, Name: fmt.Sprintf("f%04d", i), OID: oid})
			}
			SortTreeEntries(es)
			t := w.Add(NewObject(KTree, EncodeTree(es)))
			cs := CommitSpec{Tree: t.ID, Author: ident("A", int64(1500000000+k), "+0000"), Committer: ident("C", int64(1500000000+k), "+0000"), Message: fmt.Sprintf("wide %d\n", k)}
			if prev != "" {
				cs.Parents = []string{prev}
			}
			prev = w.Add(NewObject(KCommit, EncodeCommit(cs))).ID
		}
		if !refConflicts(refSet(w), "refs/heads/wide") {
			w.Refs = append(w.Refs, Ref{Name: "refs/heads/wide", OID: prev})
		}
		c.Stats.Probe("world-with-consecutive-33-63KB-trees")
	}
	sharedSub := g.Rare(1, 3, "sharedsubtree")
	if sharedSub {
		// the same subtree as a direct entry of a tree and of one of that
		// tree's descendants, holding the biggest blob: whichever path it is
		// cited under must not depend on who gets there first
		big := w.Add(NewObject(KBlob, append([]byte("shared subtree blob "), make([]byte, 9000)...)))
		sub := w.Add(NewObject(KTree, EncodeTree([]TreeEntry{{Mode: 0o100644, Name: "big.bin", OID: big.ID}})))
		inner := w.Add(NewObject(KTree, EncodeTree([]TreeEntry{{Mode: 0o040000, Name: "x", OID: sub.ID}})))
		es := []TreeEntry{{Mode: 0o040000, Name: "a", OID: inner.ID}, {Mode: 0o040000, Name: "x", OID: sub.ID}}
		if g.Bool("thirdcopy") {
			es = append(es, TreeEntry{Mode: 0o040000, Name: "b", OID: inner.ID}, TreeEntry{Mode: 0o040000, Name: "y", OID: sub.ID})
		}
		SortTreeEntries(es)
		root := w.Add(NewObject(KTree, EncodeTree(es)))
		cs := CommitSpec{Tree: root.ID, Author: ident("A", 1700000000, "+0000"), Committer: ident("C", 1700000000, "+0000"), Message: "shared subtree\n"}
		co := w.Add(NewObject(KCommit, EncodeCommit(cs)))
		if !refConflicts(refSet(w), "refs/heads/shared") {
			w.Refs = append(w.Refs, Ref{Name: "refs/heads/shared", OID: co.ID})
		}
		c.Stats.Probe("world-with-a-subtree-shared-between-a-tree-and-its-descendant")
	}
	if g.Rare(1, 5, "longchain") {
		// enough history for git's automatic maintenance thresholds (100 commits
		// without a commit-graph, ...): nothing git-sizer runs may trip them
		n := g.Int(100, 180, "chainlen")
		manyRefs := !refConflicts(refSet(w), "refs/tags/chain")
		prev := ""
		for i := 0; i < n; i++ {
			cs := CommitSpec{Tree: EmptyTreeID, Author: ident("A", int64(1200000000+i), "+0000"), Committer: ident("C", int64(1200000000+i), "+0000"), Message: fmt.Sprintf("chain %d\n", i)}
			if prev != "" {
				cs.Parents = []string{prev}
			}
			prev = w.Add(NewObject(KCommit, EncodeCommit(cs))).ID
			if manyRefs {
				// a reference on every commit: more roots than any batch or buffer on the way to rev-list holds
				w.Refs = append(w.Refs, Ref{Name: fmt.Sprintf("refs/tags/chain/%04d", i), OID: prev})
			}
		}
		if !refConflicts(refSet(w), "refs/heads/chain") {
			w.Refs = append(w.Refs, Ref{Name: "refs/heads/chain", OID: prev})
		}
		c.Stats.Probe("world-with-100-180-commit-chain")
	}
	gm := NewGroupModel()
	forceTable := false
	if g.Chance(1, 2, "groups") {
		// several configured groups: anything that iterates a map while
		// printing would show up as run-to-run differences
		specs := GenGroups(g, w, 4, false)
		// a family of sibling groups that all match everything, so each has a row
		n := g.Int(3, 6, "nsiblings")
		for i := 0; i < n; i++ {
			specs = append(specs, GroupSpec{Symbol: fmt.Sprintf("fam.%c", 'a'+i), Rules: []GroupRule{{Include: true, Pattern: "refs/"}}})
		}
		w.Config.Local = RenderGroups(specs, &g)
		forceTable = g.Chance(2, 3, "grouptable")
	}
	refopts := GenRefOpts(g, w, gm, InvOpts{RefOpts: true, MaxRefOpts: 2})
	roots := GenRoots(g, w)
	fixed := FormatArgs(g, "")
	if forceTable {
		fixed = []string{"-v"}
	}
	sizerCfg := g.Chance(1, 3, "sizerconfig") && !sharedSub
	if sizerCfg {
		// output-shaping settings come from gitconfig only
		w.Config.Global += "[sizer]\n\tnames = hash\n\tthreshold = 0\n\tjsonVersion = 2\n"
	}
	if sharedSub {
		// the shared subtree is cited by path: names must be printed in full
		fixed = append(fixed, "--names=full")
	} else if !sizerCfg {
		fixed = append(fixed, NamesArgs(g, "")...)
		if g.Chance(1, 2, "verbose") {
			fixed = append(fixed, "-v")
		}
	} else {
		var keep []string
		for _, a := range fixed {
			if !strings.HasPrefix(a, "--json-version") && a != "1" && a != "2" && a != "-v" {
				keep = append(keep, a)
			}
		}
		fixed = keep
	}
	fixed = append(fixed, g.PickStr([]string{"--progress", "--no-progress"}, "progress"))
	inv := BuildInvocation(g, fixed, refopts, roots, []string{"top", "subdir", "elsewhere"}, w)
	var plans []Plan
	for i := 0; i < 3; i++ {
		pl := GenPlan(g, false)
		for _, k := range peerKinds {
			pl.Peers[k].Order, pl.Peers[k].ObjOrder = nil, nil // same delivery order: only timing and chunking vary
		}
		plans = append(plans, pl)
	}
	sc := &Scenario{Format: 1, Property: "C17", Engine: "B", World: w, Inv: inv, Params: map[string]interface{}{"plans": plans}}
	if v := judgeC17(c, sc); v != nil {
		c.Fail(rt, sc, v.Class, v.Detail)
	}
}

func init() {
	compB := map[string]string{
		"git-sizer":                      "real binary built from the current /repo tree with the default toolchain and the shipped go.mod (engine B; -race build for C17)",
		"git":                            "real git 2.39.5 behind /verif/bin/gitshim (records, re-chunks, delays, injects failures)",
		"clock, pipes, OS scheduling":    "real (sampled, not decided): GOMAXPROCS 1/2/4/16 and proxy jitter perturb the interleaving",
		"in-process variants (C17 only)": "engine A built with -race from copies of git-sizer's sources with yield points inserted before every lock / channel operation / select and after every go statement: same delivery order under different chunking, delays, pipe capacities and flush policies, then 8 goroutine schedules at those yield points (GOMAXPROCS=1, decided by the plan)",
	}
	Register(&Prop{ID: "C13", Check: checkC13, Replay: judgeC13, Components: compB,
		Rule: "engine B only (real git semantics are the point): generated repositories with reflogs, replace references for commits / trees / blobs and graft lines that add, drop or redirect parents; the real binary is started at the top of the work tree, in a subdirectory, inside .git, with GIT_DIR absolute and relative from an unrelated directory, on a bare / non-bare twin, in a linked worktree (also with the worktree's own detached HEAD as ROOT), in a subdirectory entered through a symbolic link (with and without a relative GIT_DIR containing ..) and as `git -C <dir> sizer`; one world in three spells out core.useReplaceRefs=true in one of four configuration scopes; stdout must be byte-identical across modes and the numbers equal the model evaluated on the stored graph (refs/replace/* being ordinary references); a real `git clone --depth 1` of the repository must be refused with an error and no report. non-trivial: the world carries replace refs or grafts; distinct by scenario hash"})
	Register(&Prop{ID: "C17", Check: checkC17, Replay: judgeC17, Components: compB,
		Rule: "generated repositories (loose / packed-refs / repacked / bitmapped pack + loose; one in five with a flat directory of 1000-1900 files changed in successive commits, one in five with a chain of 100-180 commits; reflogs, an index and untracked files in the work tree) x command lines of every format; the real -race binary runs at GOMAXPROCS 1 and 16, the plain binary 12 more times at GOMAXPROCS 2/3/4/5/8/16 with proxy re-chunking and delays on every other run (two thirds of the worlds carry deliberate ties: equally large maximal blobs side by side, equal tag depths), then the -race in-process engine runs 3 plan variants (same delivery order, different chunking / delays / pipe capacities / flush policies) and 8 goroutine schedules (yield counts at yield points compiled into copies of git-sizer's sources before every lock, channel operation and after every go statement): stdout byte-identical across all runs, any race-detector report is a violation, and a digest of every path of the repository (type, mode, size, SHA-256) and of $HOME is unchanged afterwards. Goroutine choice inside the real binary is sampled; inside the in-process engine it is decided by the schedule at GOMAXPROCS=1. distinct by scenario hash"})
}

// groupsUsable: every regexp compiles and no leaf group is rule-less
// (git-sizer rejects such configuration by design).
func groupsUsable(gm *GroupModel) bool {
	for _, s := range gm.Order {
		for _, r := range gm.Groups[s].Rules {
			if r.Regexp {
				if _, err := regexpFullMatch(r.Pattern, "x"); err != nil {
					return false
				}
			}
		}
	}
	return len(gm.Undefined()) == 0
}
