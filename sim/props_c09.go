package sim

// C09: numeric results are independent of enumeration order and storage
// layout (metamorphic), plus the Graph-feed enumeration of every order.

import (
	"bytes"
	"fmt"
	"regexp"
	"sort"
	"strings"
	"time"

	"pgregory.net/rapid"
)

var AllNumericFields = func() []string {
	var out []string
	out = append(out, CensusFields...)
	out = append(out, MaximaFields...)
	out = append(out, DepthFields...)
	out = append(out, CheckoutFields...)
	return out
}()

type c09Params struct {
	Mode    string   `json:"mode"` // metamorphic
	RefOpts []RefOpt `json:"refopts,omitempty"`
	Plans   []Plan   `json:"plans"`
	// RootPerms: permutations of the ROOT arguments, one per variant
	RootPerms [][]int `json:"root_perms,omitempty"`
	Layouts   bool    `json:"layouts,omitempty"`
	Redate    []int64 `json:"redate,omitempty"` // new committer dates (10 digits) by commit index
}

var dateRe = regexp.MustCompile(`(> )(\d+)( [+-]\d{4})`)

// RedateWorld returns a copy of w whose commits carry new dates (same
// number of digits, so object sizes are unchanged) and the id mapping.
func RedateWorld(w *World, dates []int64) (*World, map[string]string) {
	nw := &World{Head: w.Head, Config: w.Config, Layout: w.Layout, Bare: w.Bare, Extras: w.Extras}
	remap := map[string]string{}
	mapID := func(id string) string {
		if n, ok := remap[id]; ok {
			return n
		}
		return id
	}
	ci := 0
	for _, o := range w.Objects {
		body := o.Body
		switch o.Kind {
		case KCommit:
			s := string(body)
			// header block only
			end := strings.Index(s, "\n\n")
			hdr, rest := s, ""
			if end >= 0 {
				hdr, rest = s[:end], s[end:]
			}
			var lines []string
			for _, l := range strings.Split(hdr, "\n") {
				switch {
				case strings.HasPrefix(l, "tree "):
					l = "tree " + mapID(l[5:])
				case strings.HasPrefix(l, "parent "):
					l = "parent " + mapID(l[7:])
				case strings.HasPrefix(l, "author ") || strings.HasPrefix(l, "committer "):
					if len(dates) > 0 {
						d := dates[ci%len(dates)]
						l = dateRe.ReplaceAllStringFunc(l, func(m string) string {
							sm := dateRe.FindStringSubmatch(m)
							nd := fmt.Sprintf("%d", d)
							if len(nd) != len(sm[2]) {
								return m // keep the size unchanged
							}
							return sm[1] + nd + sm[3]
						})
					}
				}
				lines = append(lines, l)
			}
			ci++
			body = []byte(strings.Join(lines, "\n") + rest)
		case KTag:
			s := string(body)
			if strings.HasPrefix(s, "object ") && len(s) >= 47 {
				body = []byte("object " + mapID(s[7:47]) + s[47:])
			}
		case KTree:
			es, err := DecodeTree(body)
			if err == nil {
				changed := false
				for i := range es {
					if n, ok := remap[es[i].OID]; ok {
						es[i].OID = n
						changed = true
					}
				}
				if changed {
					body = EncodeTree(es)
				}
			}
		}
		no := NewObject(o.Kind, body)
		no.Stored, no.DeclaredSize = o.Stored, o.DeclaredSize
		if no.ID != o.ID {
			remap[o.ID] = no.ID
		}
		nw.Add(no)
	}
	for _, r := range w.Refs {
		nw.Refs = append(nw.Refs, Ref{Name: r.Name, OID: mapID(r.OID)})
	}
	if len(w.Head) == 40 {
		nw.Head = mapID(w.Head)
	}
	return nw, remap
}

func numericDigest(m map[string]interface{}) string {
	var parts []string
	for _, k := range AllNumericFields {
		parts = append(parts, fmt.Sprintf("%s=%v", k, m[k]))
	}
	parts = append(parts, fmt.Sprintf("reference_count=%v", m["reference_count"]))
	return strings.Join(parts, " ")
}

func judgeC09(c *Ctx, sc *Scenario) *Violation {
	if sc.Engine == "graphfeed" {
		t0 := time.Now()
		defer func() { c.Stats.Extra["wall_s_graph_feed_enumeration"] += time.Since(t0).Seconds() }()
		return judgeGraphFeed(c, sc, "C09", AllNumericFields)
	}
	tAll := time.Now()
	defer func() { c.Stats.Extra["wall_s_metamorphic_evaluations"] += time.Since(tAll).Seconds() }()
	var p c09Params
	decodeParams(sc, &p)
	w := sc.World
	site, err := Materialise(w)
	if err != nil {
		return nil
	}
	defer site.Close()
	if !verifyRoots(c, site, sc.Inv.Roots) {
		return nil
	}
	gm, _, err := groupModelFor(site)
	if err != nil {
		return nil
	}
	sel := &Selection{Opts: p.RefOpts, HasRoots: len(sc.Inv.Roots) > 0, GM: gm}
	roots := walkedRoots(w, sel, sc.Inv.Roots)
	ex := w.Expect(roots)
	c.Stats.Evaluations++
	var ref string
	var refDesc string
	runVariant := func(desc string, vsc *Scenario, vsite *Site, vex *Expected) *Violation {
		tRun := time.Now()
		res := RunA(c.T, c.H, vsc, vsite)
		if vsc.Plan.RealPeers {
			c.Stats.Extra["wall_s_cli_runs_against_real_git"] += time.Since(tRun).Seconds()
		} else {
			c.Stats.Extra["wall_s_cli_runs_against_simulated_peers"] += time.Since(tRun).Seconds()
		}
		c.Stats.AddResult(res)
		if res.Panic != "" {
			return &Violation{"C09/panic", desc + ": " + firstLines(res.Panic, 8)}
		}
		if res.Hang {
			return &Violation{"C09/hang", desc}
		}
		if res.Failed {
			return &Violation{"C09/run-failed", desc + ": " + res.Err}
		}
		m, err := ParseJSONObject(res.Stdout)
		if err != nil {
			return &Violation{"C09/bad-json", desc + ": " + err.Error()}
		}
		if bad := vex.CompareV1(m, AllNumericFields); len(bad) > 0 {
			sort.Strings(bad)
			return &Violation{"C09/mismatch:" + strings.SplitN(bad[0], ":", 2)[0], desc + ": " + strings.Join(bad, "; ")}
		}
		d := numericDigest(m)
		if ref == "" {
			ref, refDesc = d, desc
		} else if d != ref {
			return &Violation{"C09/variants-differ", fmt.Sprintf("%s:\n%s\n%s:\n%s", refDesc, ref, desc, d)}
		}
		return nil
	}
	nvar := 0
	for i, pl := range p.Plans {
		v := *sc
		v.Plan = pl
		if i < len(p.RootPerms) && len(p.RootPerms[i]) == len(sc.Inv.Roots) && len(sc.Inv.Roots) > 1 {
			// permute the ROOT arguments (they are the trailing arguments)
			n := len(sc.Inv.Roots)
			args := append([]string(nil), sc.Inv.Args...)
			base := len(args) - n
			ok := base >= 0
			for j := 0; ok && j < n; j++ {
				if args[base+j] != sc.Inv.Roots[j].Expr {
					ok = false
				}
			}
			if ok {
				// a true permutation: order the positions by the drawn keys
				pos := make([]int, n)
				for j := range pos {
					pos[j] = j
				}
				keys := p.RootPerms[i]
				sort.SliceStable(pos, func(a, b int) bool { return keys[pos[a]] < keys[pos[b]] })
				for j, pj := range pos {
					args[base+j] = sc.Inv.Roots[pj].Expr
				}
				v.Inv.Args = args
				c.Stats.Probe("root-order-permuted")
			}
		}
		if viol := runVariant(fmt.Sprintf("variant %d (simulated peers, plan %d)", i, i), &v, site, ex); viol != nil {
			sc.Plan = pl
			return viol
		}
		nvar++
	}
	if p.Layouts {
		hasDeclared := false
		for _, o := range w.Objects {
			if o.DeclaredSize != nil {
				hasDeclared = true
			}
		}
		if !hasDeclared {
			for _, layout := range []string{"loose", "packed-refs", "packed", "bitmap", "promisor"} {
				lw := w.Clone()
				lw.Layout = layout
				tMat := time.Now()
				ls, err := Materialise(lw)
				c.Stats.Extra["wall_s_writing_layout_variants_with_real_git"] += time.Since(tMat).Seconds()
				if err != nil {
					continue
				}
				v := *sc
				v.World = lw
				v.Plan = Plan{RealPeers: true}
				viol := runVariant("real git, layout "+layout, &v, ls, ex)
				ls.Close()
				if viol != nil {
					return viol
				}
				nvar++
				c.Stats.Probe("layout-variant-" + layout)
			}
		}
	}
	if len(p.Redate) > 0 && len(sc.Inv.Roots) == 0 {
		rw, _ := RedateWorld(w, p.Redate)
		rs, err := Materialise(rw)
		if err == nil {
			v := *sc
			v.World = rw
			if len(p.Plans) > 0 {
				v.Plan = p.Plans[0]
			}
			rroots := walkedRoots(rw, sel, nil)
			rex := rw.Expect(rroots)
			viol := runVariant("same graph, other commit dates", &v, rs, rex)
			rs.Close()
			if viol != nil {
				return viol
			}
			nvar++
			c.Stats.Probe("redated-variant")
		}
	}
	if nvar >= 4 && len(ex.Closure) >= 4 {
		c.Stats.Nontrivial[sc.Hash()] = true
	}
	_ = bytes.Equal
	return nil
}

func checkC09(c *Ctx, rt *rapid.T) {
	g := G{rt}
	if g.Chance(1, 3, "graphfeed") {
		sc := genFeedScenario(g, "C09")
		if v := judgeC09(c, sc); v != nil {
			c.Fail(rt, sc, v.Class, v.Detail)
		}
		return
	}
	opts := DefaultGen
	w := GenWorld(g, opts)
	gm := NewGroupModel()
	refopts := GenRefOpts(g, w, gm, InvOpts{RefOpts: true, MaxRefOpts: 2})
	roots := GenRoots(g, w)
	// ROOTs last so that they can be permuted
	inv := Invocation{Args: []string{"--json"}, Roots: roots, Cwd: "top"}
	for _, ro := range refopts {
		inv.Args = append(inv.Args, ro.Args...)
	}
	for _, r := range roots {
		inv.Args = append(inv.Args, r.Expr)
	}
	p := c09Params{Mode: "metamorphic", RefOpts: refopts, Layouts: g.Chance(1, 4, "layouts")}
	for i := 0; i < 4; i++ {
		p.Plans = append(p.Plans, GenPlan(g, true))
		p.RootPerms = append(p.RootPerms, g.Ints(3, 0, 5, "rootperm"))
	}
	if g.Chance(1, 2, "redate") {
		n := g.Int(1, 6, "ndates")
		for i := 0; i < n; i++ {
			p.Redate = append(p.Redate, int64(g.Int(1_000_000_000, 2_000_000_000, "newdate")))
		}
	}
	sc := &Scenario{Format: 1, Property: "C09", Engine: "A", World: w, Inv: inv, Params: p}
	if v := judgeC09(c, sc); v != nil {
		c.Fail(rt, sc, v.Class, v.Detail)
	}
}

func init() {
	comp := map[string]string{}
	for k, v := range componentsA {
		comp[k] = v
	}
	comp["sizes.Graph (Graph-feed driver)"] = "real code fed through its exported API (RegisterBlob/Tree/Commit/Tag, HistorySize) without any process or pipe"
	Register(&Prop{ID: "C09", Check: checkC09, Replay: judgeC09, Components: comp,
		Rule: "(a) Graph-feed: small generated graphs (<= 6 trees, <= 6 commits, <= 5 tags) fed to sizes.Graph in every tree permutation, every tag permutation and every parents-first linear extension of the commits (bounded at 800 orders per dimension, counted as sampled beyond), each compared with the model; (b) metamorphic CLI runs: one world x >= 4 variants - adversarially drawn rev-list orders of commits and of trees/tags, chunkings and flush policies, permuted ROOT arguments, real git on loose / packed-refs / repacked / bitmapped-pack-plus-loose / promisor-pack layouts, the same graph with other 10-digit commit dates - all numeric JSON v1 fields equal across variants and equal to the model. non-trivial: (a) >= 3 trees or >= 2 tags or >= 3 commits, (b) >= 4 variants and >= 4 reachable objects; distinct by scenario hash"})
}
