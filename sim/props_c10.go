package sim

// C10: all-or-nothing reporting under faults and invalid input.

import (
	"bytes"
	"fmt"
	"os"
	"path/filepath"
	"sort"
	"strings"

	"pgregory.net/rapid"
)

type c10Params struct {
	Mode    string   `json:"mode"` // fault | enum | invalid | missing | oneshot | absent | shallow
	RefOpts []RefOpt `json:"refopts,omitempty"`
	Invalid string   `json:"invalid,omitempty"`
	EngineB bool     `json:"engine_b,omitempty"`
}

func planWithoutFaults(pl Plan) Plan {
	out := Plan{Peers: map[string]*PeerPlan{}, Sched: pl.Sched, GoYields: pl.GoYields, RealPeers: pl.RealPeers}
	for k, pp := range pl.Peers {
		if pp == nil {
			continue
		}
		cp := *pp
		var keep []Fault
		for _, f := range pp.Faults {
			if f.Kind == "stall" {
				keep = append(keep, f)
			}
		}
		cp.Faults = keep
		out.Peers[k] = &cp
	}
	return out
}

func failureFired(res *Result) (bool, string) {
	var ks []string
	for k, n := range res.Run.FaultsFired {
		if n > 0 && k != "stall" {
			ks = append(ks, k)
		}
	}
	sort.Strings(ks)
	return len(ks) > 0, strings.Join(ks, ",")
}

// judgeOutcome applies the relaxed oracle of DESIGN.md 2.5.
func judgeOutcome(res *Result, base []byte, mustFail bool, why string, engineB bool) *Violation {
	switch {
	case res.Panic != "":
		return &Violation{"C10/panic", why + ": " + firstLines(res.Panic, 8)}
	case res.Hang:
		return &Violation{"C10/hang", why + ": the run cannot make progress (watchdog)"}
	}
	if res.Failed {
		if len(res.Stdout) > 0 {
			return &Violation{"C10/report-on-failure", fmt.Sprintf("%s: non-zero exit (%s) but %d bytes on stdout: %q", why, res.Err, len(res.Stdout), firstBytes(res.Stdout, 200))}
		}
		if engineB && !res.BStderrOK() {
			return &Violation{"C10/no-error-message", fmt.Sprintf("%s: non-zero exit without an 'error:' message on stderr: %q", why, firstBytes(res.Stderr, 200))}
		}
		if !engineB && res.Err == "" {
			return &Violation{"C10/no-error-message", why + ": failure with an empty error"}
		}
		if !mustFail {
			return &Violation{"C10/spurious-failure", fmt.Sprintf("%s: nothing failed, yet the run failed: %s", why, res.Err)}
		}
		return nil
	}
	if mustFail {
		return &Violation{"C10/exit0-after-failure", fmt.Sprintf("%s: exit status 0 (%d bytes of report)", why, len(res.Stdout))}
	}
	if base != nil && !bytes.Equal(res.Stdout, base) {
		return &Violation{"C10/report-differs", fmt.Sprintf("%s: exit 0 but the report differs from the fault-free run:\n%s\n--- fault-free:\n%s", why, firstBytes(res.Stdout, 600), firstBytes(base, 600))}
	}
	if len(res.Stdout) == 0 {
		return &Violation{"C10/exit0-without-report", why + ": exit 0 and empty stdout"}
	}
	return nil
}

func describeFaults(pl *Plan) string {
	var parts []string
	var ks []string
	for k := range pl.Peers {
		ks = append(ks, k)
	}
	sort.Strings(ks)
	for _, k := range ks {
		for _, f := range pl.Peers[k].Faults {
			parts = append(parts, fmt.Sprintf("%s:%s(status=%d,signal=%d)@byte=%d,stdin_lines=%d", k, f.Kind, f.Status, f.Signal, f.AtByte, f.StdinLines))
		}
	}
	for _, o := range pl.Oneshot {
		parts = append(parts, fmt.Sprintf("oneshot[%s#%d]:status=%d,signal=%d@byte=%d", o.Match, o.Nth, o.Status, o.Signal, o.AtByte))
	}
	return strings.Join(parts, " + ")
}

// runFaulted runs one faulted scenario on an existing site and judges it.
// hasTruncate: the plan loses the tail of the `cat-file --batch` stream while
// the process reports success. Nothing has "failed", so a run may either
// notice (fewer objects than requested: non-zero, no report) or not be
// affected (the cut was after the last requested object: identical report);
// exit 0 with a different report is never legal.
func hasTruncate(pl *Plan) bool {
	for _, pp := range pl.Peers {
		if pp == nil {
			continue
		}
		for _, f := range pp.Faults {
			if f.Kind == "truncate" {
				return true
			}
		}
	}
	return false
}

// resolveFromEnd turns "that many bytes before the end of the fault-free
// stream" into an absolute offset, on a copy of the scenario.
func resolveFromEnd(sc *Scenario, base *Result) *Scenario {
	need := false
	for _, pp := range sc.Plan.Peers {
		if pp != nil {
			for _, f := range pp.Faults {
				need = need || f.BackFromEnd > 0
			}
		}
	}
	if !need {
		return sc
	}
	totals := map[string]int{}
	for _, st := range base.Run.stages {
		if st.nth == 0 && st.out != nil {
			totals[st.kind] = st.out.total
		}
	}
	r := *sc
	r.Plan.Peers = map[string]*PeerPlan{}
	for k, pp := range sc.Plan.Peers {
		if pp == nil {
			continue
		}
		q := *pp
		q.Faults = append([]Fault(nil), pp.Faults...)
		for i := range q.Faults {
			if b := q.Faults[i].BackFromEnd; b > 0 {
				at := totals[k] - b
				if at < 0 {
					at = 0
				}
				q.Faults[i].AtByte = at
			}
		}
		r.Plan.Peers[k] = &q
	}
	return &r
}

func runFaulted(c *Ctx, sc *Scenario, site *Site, base []byte, engineB bool) *Violation {
	why := describeFaults(&sc.Plan)
	if hasTruncate(&sc.Plan) && !engineB {
		res := RunA(c.T, c.H, sc, site)
		c.Stats.AddResult(res)
		c.Stats.Evaluations++
		why += " [lost output, exit 0]"
		switch {
		case res.Panic != "":
			return &Violation{"C10/panic", why + ": " + firstLines(res.Panic, 8)}
		case res.Hang:
			return &Violation{"C10/hang", why}
		case res.Failed && len(res.Stdout) > 0:
			return &Violation{"C10/report-on-failure", fmt.Sprintf("%s: non-zero exit but %d bytes on stdout", why, len(res.Stdout))}
		case !res.Failed && !bytes.Equal(res.Stdout, base):
			sc.Log = res.Events
			return &Violation{"C10/report-differs", fmt.Sprintf("%s: exit 0 but the report differs from the fault-free run:\n%s\n--- fault-free:\n%s", why, firstBytes(res.Stdout, 500), firstBytes(base, 500))}
		}
		if res.Failed {
			c.Stats.Nontrivial[sc.Hash()] = true
		}
		return nil
	}
	var res *Result
	if engineB {
		res = RunB(sc, site, BOpts{})
		c.Stats.Probe("engine-B-runs")
	} else {
		res = RunA(c.T, c.H, sc, site)
	}
	c.Stats.AddResult(res)
	c.Stats.Evaluations++
	fired, what := failureFired(res)
	if fired {
		c.Stats.Nontrivial[sc.Hash()] = true
		why += " [fired: " + what + "]"
	} else {
		why += " [no failure fired]"
	}
	v := judgeOutcome(res, base, fired, why, engineB)
	if v != nil {
		sc.Log = res.Events
	}
	return v
}

func baselineOf(c *Ctx, sc *Scenario, site *Site) (*Result, bool) {
	b := *sc
	b.Plan = planWithoutFaults(sc.Plan)
	b.Plan.Oneshot = nil
	res := RunA(c.T, c.H, &b, site)
	c.Stats.AddResult(res)
	if res.Failed || res.Panic != "" || res.Hang {
		c.Stats.Probe("baseline-run-not-clean (scenario skipped)")
		return res, false
	}
	return res, true
}

var dieKinds = []Fault{
	{Kind: "exit", Status: 1}, {Kind: "exit", Status: 128}, {Kind: "signal", Signal: 9}, {Kind: "signal", Signal: 13},
	{Kind: "exit", Status: 2}, {Kind: "exit", Status: 255}, {Kind: "signal", Signal: 15}, {Kind: "signal", Signal: 11},
}

func genFault(g G, kind string) Fault {
	f := dieKinds[g.Pick(len(dieKinds), "diekind")]
	f.StdinLines = -1
	switch g.Pick(6, "atkind") {
	case 0:
		f.AtByte = -1
	case 1:
		f.AtByte = 0
	case 2:
		f.AtByte = g.Int(1, 60, "atsmall")
	case 3:
		f.AtByte = 41 * g.Int(0, 12, "atline")
	default:
		f.AtByte = g.Int(0, 1500, "atbyte")
	}
	if kind != "for-each-ref" && g.Chance(1, 4, "stdinclose") {
		f.StdinLines = g.Int(0, 6, "stdinlines")
		f.AtByte = -1
	}
	return f
}

var peerKinds = []string{"for-each-ref", "rev-list", "batch-check", "batch"}

func genC10Base(g G, small bool) (*World, Invocation, []RefOpt) {
	opts := DefaultGen
	if small {
		opts.MaxBlobs, opts.MaxTrees, opts.MaxCommits, opts.MaxTags, opts.MaxRefs, opts.MaxEntries = 3, 3, 3, 2, 3, 3
		opts.ExtraHeaders = false
		opts.NameStyle = 0
		opts.Octopus = false
	}
	w := GenWorld(g, opts)
	if !small && g.Rare(1, 6, "manyobjects") {
		// more requests than any buffer between git-sizer's feeder goroutines
		// and git holds (bufio 4 KiB = 100 object ids): a long chain of
		// commits and many references
		n := g.Int(110, 420, "chainlen")
		var prev string
		for i := 0; i < n; i++ {
			cs := CommitSpec{Tree: EmptyTreeID, Author: ident("A", int64(1300000000+i), "+0000"), Committer: ident("C", int64(1300000000+i), "+0000"), Message: fmt.Sprintf("chain %d\n", i)}
			if prev != "" {
				cs.Parents = []string{prev}
			}
			prev = w.Add(NewObject(KCommit, EncodeCommit(cs))).ID
			if g.Bool("chainref") || i == n-1 {
				name := fmt.Sprintf("refs/heads/chain/%04d", i)
				if !refConflicts(refSet(w), name) {
					w.Refs = append(w.Refs, Ref{Name: name, OID: prev})
				}
			}
		}
	}
	gm := NewGroupModel()
	refopts := GenRefOpts(g, w, gm, InvOpts{RefOpts: true, Regexps: true, MaxRefOpts: 2})
	roots := GenRoots(g, w)
	fixed := FormatArgs(g, "")
	fixed = append(fixed, NamesArgs(g, "")...)
	if g.Chance(1, 3, "verbose") {
		fixed = append(fixed, "-v")
	}
	if g.Chance(1, 5, "progress") {
		fixed = append(fixed, "--progress")
	}
	inv := BuildInvocation(g, fixed, refopts, roots, []string{"top", "top", "subdir", "elsewhere"}, w)
	return w, inv, refopts
}

var invalidClasses = []string{"bad-threshold", "bad-names", "bad-json-version", "unknown-flag", "bad-regexp", "undefined-group", "bad-root", "bad-bool", "missing-value", "bad-root-2"}

func invalidArgs(g G, class string) []string {
	switch class {
	case "bad-threshold":
		return []string{"--threshold=" + g.PickStr([]string{"abc", "", "1,5", "0x", "--"}, "badthr")}
	case "bad-names":
		return []string{"--names=" + g.PickStr([]string{"bogus", "", "FULL", "sha256"}, "badnames")}
	case "bad-json-version":
		return []string{"--json", "--json-version=" + g.PickStr([]string{"3", "0", "-1", "x", "1.5"}, "badjv")}
	case "unknown-flag":
		return []string{g.PickStr([]string{"--nonesuch", "--includ", "-x", "--no-json"}, "unkflag")}
	case "bad-regexp":
		return []string{g.PickStr([]string{"--include", "--exclude"}, "incl"), "/" + g.PickStr([]string{"[", "(", "a{2,1}", "*", "\\"}, "badre") + "/"}
	case "undefined-group":
		return []string{g.PickStr([]string{"--include=@nosuchgroup", "--exclude=@nope", "--include=@", "--refgroup=nosuch"}, "badgrp")}
	case "bad-root":
		return []string{g.PickStr([]string{"nosuchref", "refs/heads/nonexistent", "0000000000000000000000000000000000000001", "HEAD~99999", "deadbeef", ":", "@{-1}"}, "badroot")}
	case "bad-root-2":
		return []string{"--json", "--", g.PickStr([]string{"no such thing", "refs/tags/none^{tree}", "HEAD:nonexistent/path"}, "badroot2")}
	case "bad-bool":
		return []string{g.PickStr([]string{"--progress=maybe", "--branches=perhaps", "--verbose=2x", "--critical=no!", "--no-tags=x"}, "badbool")}
	case "missing-value":
		return []string{g.PickStr([]string{"--include", "--threshold", "--names", "--json-version"}, "missingval")}
	}
	return nil
}

// c10Prefix: every invalid command line of a fixed list on a fixed world,
// on both engines, so that no class of invalid input is left to chance.
func c10Prefix(c *Ctx) (*Scenario, *Violation) {
	w := &World{Layout: "loose", Head: "ref: refs/heads/main"}
	blob := w.Add(NewObject(KBlob, []byte("x\n")))
	tree := w.Add(NewObject(KTree, EncodeTree([]TreeEntry{{Mode: 0o100644, Name: "f", OID: blob.ID}})))
	var prev string
	for i := 0; i < 3; i++ {
		cs := CommitSpec{Tree: tree.ID, Author: ident("A", int64(1000+i), "+0000"), Committer: ident("C", int64(1000+i), "+0000"), Message: fmt.Sprintf("c%d\n", i)}
		if prev != "" {
			cs.Parents = []string{prev}
		}
		prev = w.Add(NewObject(KCommit, EncodeCommit(cs))).ID
	}
	tag := w.Add(NewObject(KTag, EncodeTag(TagSpec{Object: prev, Type: KCommit, Tag: "v1", Tagger: ident("T", 1003, "+0000"), Message: "v1\n"})))
	w.Refs = []Ref{{Name: "refs/heads/main", OID: prev}, {Name: "refs/tags/v1", OID: tag.ID}}
	// a well-formed object id that names nothing, a real commit id with one digit changed
	ghost := prev[:39] + map[bool]string{true: "0", false: "1"}[prev[39] != '0']
	lines := map[string][][]string{
		"bad-threshold":    {{"--threshold=abc"}, {"--threshold="}, {"--threshold=1,5"}, {"--threshold=0x"}, {"--threshold", "--"}},
		"bad-names":        {{"--names=bogus"}, {"--names="}, {"--names=FULL"}, {"--names=sha256"}},
		"bad-json-version": {{"--json", "--json-version=3"}, {"--json", "--json-version=0"}, {"--json", "--json-version=-1"}, {"--json", "--json-version=x"}, {"--json", "--json-version=1.5"}},
		"unknown-flag":     {{"--nonesuch"}, {"--includ"}, {"-x"}, {"--no-json"}},
		"bad-regexp":       {{"--include", "/[/"}, {"--exclude", "/(/"}, {"--include", "/a{2,1}/"}, {"--exclude", "/*/"}, {"--include", "/\\/"}, {"--include-regexp", "["}, {"--exclude-regexp", "("}},
		"undefined-group":  {{"--include=@nosuchgroup"}, {"--exclude=@nope"}, {"--include=@"}, {"--refgroup=nosuch"}},
		"bad-root": {{"nosuchref"}, {"refs/heads/nonexistent"}, {"0000000000000000000000000000000000000001"}, {ghost}, {"main", ghost}, {ghost, "main"}, {"--branches", ghost},
			{"HEAD~99999"}, {"deadbeef"}, {":"}, {"@{-1}"}, {"main", "nosuchref"}, {"nosuchref", "main"}, {"nosuchref", "also^{bogus}", "main"}, {"HEAD~99999", "v1"}, {"main", "nosuchref", "v1"}, {"--", "no such thing"}, {"--", "refs/tags/none^{tree}"}, {"--", "HEAD:nonexistent/path"}, {"main:nonexistent"}, {"v1^{blob}"}},
		"bad-bool":      {{"--progress=maybe"}, {"--branches=perhaps"}, {"--verbose=2x"}, {"--critical=no!"}, {"--no-tags=x"}},
		"missing-value": {{"--include"}, {"--threshold"}, {"--names"}, {"--json-version"}, {"--exclude-regexp"}, {"--refgroup"}},
	}
	var classes []string
	for k := range lines {
		classes = append(classes, k)
	}
	sort.Strings(classes)
	n := 0
	for _, class := range classes {
		for _, args := range lines[class] {
			for _, pre := range [][]string{nil, {"--json"}} {
				inv := Invocation{Args: append(append([]string{"--no-progress"}, pre...), args...), Cwd: "top"}
				sc := &Scenario{Format: 1, Property: "C10", Engine: "A", World: w, Inv: inv, Plan: Plan{},
					Params: c10Params{Mode: "invalid", Invalid: class, EngineB: true}}
				if v := judgeC10(c, sc); v != nil {
					return sc, v
				}
				n++
			}
		}
	}
	c.Stats.Exhaustive[fmt.Sprintf("%d invalid command lines (9 classes, table and --json) on a fixed world, each on the in-process engine and on the real binary with real git", n)] = true
	return nil, nil
}

func checkC10(c *Ctx, rt *rapid.T) {
	g := G{rt}
	// an unbiased choice of mode (rapid's own integer draws favour small values)
	mode := modeTable[int(splitmix64(rapid.Uint64().Draw(rt, "mode")^0x1234)%uint64(len(modeTable)))]
	switch {
	case mode < 11: // random faults, engine A (sometimes mirrored on engine B)
		w, inv, refopts := genC10Base(g, false)
		pl := GenPlan(g, false)
		nf := 1
		if g.Chance(1, 5, "multifault") {
			nf = g.Int(2, 3, "nfaults")
		}
		for i := 0; i < nf; i++ {
			k := g.PickStr(peerKinds, "faultpeer")
			pl.Peers[k].Faults = append(pl.Peers[k].Faults, genFault(g, k))
		}
		if nf == 1 && g.Rare(1, 10, "lostoutput") {
			// instead of a failure: the tail of the cat-file --batch stream is lost, exit status 0
			for _, k := range peerKinds {
				pl.Peers[k].Faults = nil
			}
			f := Fault{Kind: "truncate", AtByte: g.Int(0, 2500, "lostat"), StdinLines: -1}
			if g.Bool("lostfromend") {
				// annotated tags are requested last: cuts near the end of the stream
				f.BackFromEnd = g.Int(1, 600, "lostback")
			}
			pl.Peers["batch"].Faults = []Fault{f}
		}
		if g.Chance(1, 5, "stall") {
			k := g.PickStr(peerKinds, "stallpeer")
			pl.Peers[k].Faults = append(pl.Peers[k].Faults, Fault{Kind: "stall", AtByte: g.Int(0, 300, "stallat"), StallNS: int64(g.Int(1, 5000, "stallms")) * 1e6, StdinLines: -1})
		}
		sc := &Scenario{Format: 1, Property: "C10", Engine: "A", World: w, Inv: inv, Plan: pl,
			Params: c10Params{Mode: "fault", RefOpts: refopts, EngineB: nf == 1 && !hasTruncate(&pl) && os.Getenv("VERIF_GITSIZER_BIN") != "" && g.Chance(1, 6, "engineB")}}
		if v := judgeC10(c, sc); v != nil {
			c.Fail(rt, sc, v.Class, v.Detail)
		}
	case mode < 13: // invalid input
		w, inv, refopts := genC10Base(g, false)
		class := g.PickStr(invalidClasses, "invalidclass")
		bad := invalidArgs(g, class)
		if class == "bad-json-version" {
			// the last --json-version wins: a valid one after the bad one would make the command line valid
			var cut []string
			for i := 0; i < len(inv.Args); i++ {
				a := inv.Args[i]
				if a == "--json-version" {
					i++
					continue
				}
				if strings.HasPrefix(a, "--json-version=") {
					continue
				}
				cut = append(cut, a)
			}
			inv.Args = cut
		}
		pos := g.Int(0, len(inv.Args), "badpos")
		if class == "bad-root" && len(inv.Roots) > 0 && g.Bool("badrootfirst") {
			// before the valid ROOTs (arguments may be interspersed): the failure
			// must not be forgotten when a later ROOT resolves
			pos = 0
		} else if class == "bad-root" || class == "bad-root-2" || class == "missing-value" {
			pos = len(inv.Args)
			for i, a := range inv.Args {
				if a == "--" {
					pos = i + 1
					if class == "missing-value" {
						pos = i
					}
				}
			}
			if class == "missing-value" && pos != len(inv.Args) {
				// "--include --" would take "--" as the value; put it last instead
				pos = len(inv.Args)
				var cut []string
				for _, a := range inv.Args {
					if a == "--" {
						continue
					}
					cut = append(cut, a)
				}
				// without "--", ROOTs would follow; drop them
				inv.Args = cut[:len(cut)-len(inv.Roots)]
				inv.Roots = nil
				pos = len(inv.Args)
			}
			if class == "bad-root-2" {
				// contains its own "--"
				var cut []string
				for _, a := range inv.Args {
					if a != "--" {
						cut = append(cut, a)
					}
				}
				inv.Args = cut
				pos = len(cut)
			}
		} else {
			for i, a := range inv.Args {
				if a == "--" && pos > i {
					pos = i
				}
			}
			// do not split an option from its value
			for pos > 0 && pos < len(inv.Args) && (inv.Args[pos-1] == "--include" || inv.Args[pos-1] == "--exclude" || inv.Args[pos-1] == "--json-version" ||
				inv.Args[pos-1] == "--include-regexp" || inv.Args[pos-1] == "--exclude-regexp" || inv.Args[pos-1] == "--refgroup") {
				pos--
			}
		}
		args := append(append(append([]string(nil), inv.Args[:pos]...), bad...), inv.Args[pos:]...)
		inv.Args = args
		sc := &Scenario{Format: 1, Property: "C10", Engine: "A", World: w, Inv: inv, Plan: GenPlan(g, false),
			Params: c10Params{Mode: "invalid", RefOpts: refopts, Invalid: class}}
		if v := judgeC10(c, sc); v != nil {
			c.Fail(rt, sc, v.Class, v.Detail)
		}
	case mode < 15: // a reachable object is missing
		w, inv, refopts := genC10Base(g, false)
		sc := &Scenario{Format: 1, Property: "C10", Engine: "A", World: w, Inv: inv, Plan: GenPlan(g, false),
			Params: c10Params{Mode: "missing", RefOpts: refopts}}
		var stored []*Object
		for _, o := range w.Objects {
			if o.Stored {
				stored = append(stored, o)
			}
		}
		if len(stored) > 0 {
			stored[g.Pick(len(stored), "missingobj")].Missing = true
			if g.Chance(1, 4, "second") {
				stored[g.Pick(len(stored), "missingobj2")].Missing = true
			}
		}
		if v := judgeC10(c, sc); v != nil {
			c.Fail(rt, sc, v.Class, v.Detail)
		}
	case mode < 17: // one-shot git command fails
		w, inv, refopts := genC10Base(g, false)
		pl := GenPlan(g, false)
		m := g.PickStr([]string{"rev-parse --git-dir", "rev-parse --git-path shallow", "config --list -z", "config --get sizer.threshold", "config --get sizer.names",
			"config --get --bool sizer.progress", "config --get --int sizer.jsonVersion", "rev-parse --verify"}, "oneshotcmd")
		of := OneshotFault{Match: m, Nth: 0, AtByte: g.PickInt([]int{-1, 0, 1, 5, 20}, "oneat")}
		if strings.HasPrefix(m, "config --list") {
			of.Nth = g.Int(0, 3, "nthlist")
		}
		k := dieKinds[g.Pick(len(dieKinds), "onedie")]
		of.Status, of.Signal = k.Status, k.Signal
		if strings.HasPrefix(m, "config --get") && of.Status == 1 {
			of.Status = 2 // exit 1 is the protocol's "not set"
		}
		pl.Oneshot = []OneshotFault{of}
		sc := &Scenario{Format: 1, Property: "C10", Engine: "A", World: w, Inv: inv, Plan: pl,
			Params: c10Params{Mode: "oneshot", RefOpts: refopts, EngineB: os.Getenv("VERIF_GITSIZER_BIN") != "" && g.Chance(1, 4, "engineB1")}}
		if v := judgeC10(c, sc); v != nil {
			c.Fail(rt, sc, v.Class, v.Detail)
		}
	case mode < 18: // shallow or absent repository
		w, inv, refopts := genC10Base(g, false)
		p := c10Params{Mode: "shallow", RefOpts: refopts}
		if g.Bool("absent") {
			p.Mode = "absent"
			inv.Cwd = "elsewhere"
			inv.Env = nil
			if g.Bool("badgitdir") {
				inv.Env = map[string]string{"GIT_DIR": "$ROOT/nonexistent.git"}
			}
		} else {
			// a shallow file that git itself reads as "shallow": one boundary
			// commit, with or without the final newline (a file holding no entry at
			// all is not a shallow repository for git and is not generated)
			oid := fakeOID("s2")
			for _, o := range w.Objects {
				if o.Kind == KCommit && o.Stored {
					oid = o.ID
					break
				}
			}
			w.Extras.Shallow = oid + g.PickStr([]string{"\n", "", "\n\n"}, "shallowend")
		}
		sc := &Scenario{Format: 1, Property: "C10", Engine: "A", World: w, Inv: inv, Plan: GenPlan(g, false), Params: p}
		if v := judgeC10(c, sc); v != nil {
			c.Fail(rt, sc, v.Class, v.Detail)
		}
	case mode == 21: // many pending requests and an early death of a streaming command
		w := &World{Layout: "loose", Head: "ref: refs/heads/chain/0000"}
		n := g.Int(150, 420, "chainlen")
		var prev string
		for i := 0; i < n; i++ {
			cs := CommitSpec{Tree: EmptyTreeID, Author: ident("A", int64(1300000000+i), "+0000"), Committer: ident("C", int64(1300000000+i), "+0000"), Message: fmt.Sprintf("chain %d\n", i)}
			if prev != "" {
				cs.Parents = []string{prev}
			}
			prev = w.Add(NewObject(KCommit, EncodeCommit(cs))).ID
			w.Refs = append(w.Refs, Ref{Name: fmt.Sprintf("refs/heads/chain/%04d", i), OID: prev})
		}
		fixed := FormatArgs(g, "")
		if g.Chance(1, 4, "progress") {
			fixed = append(fixed, "--progress")
		}
		inv := Invocation{Args: fixed, Cwd: "top"}
		pl := Plan{Peers: map[string]*PeerPlan{}}
		for _, k := range peerKinds {
			pl.Peers[k] = &PeerPlan{PipeCap: -1}
		}
		k := g.PickStr([]string{"rev-list", "batch", "batch-check", "rev-list", "batch"}, "earlypeer")
		f := dieKinds[g.Pick(len(dieKinds), "earlydie")]
		f.StdinLines = -1
		if g.Bool("bystdin") {
			f.StdinLines = g.PickInt([]int{0, 1, 2, 50, 99, 101}, "earlystdin")
			f.AtByte = -1
		} else {
			f.AtByte = g.PickInt([]int{0, 1, 41, 410, 4100}, "earlybyte")
		}
		pl.Peers[k].Faults = []Fault{f}
		pl.Peers[k].PipeCap = g.PickInt([]int{-1, 0, 4096, 65536}, "earlycap")
		sc := &Scenario{Format: 1, Property: "C10", Engine: "A", World: w, Inv: inv, Plan: pl, Params: c10Params{Mode: "fault"}}
		if v := judgeC10(c, sc); v != nil {
			c.Fail(rt, sc, v.Class, v.Detail)
		}
	case mode == 23: // the report cannot be written: stdout fails like a full disk
		w, inv, refopts := genC10Base(g, false)
		pl := GenPlan(g, false)
		pl.StdoutFailAt = 1 + g.PickInt([]int{0, 0, 1, 10, 100, g.Int(0, 3000, "stdoutat")}, "stdoutfail")
		sc := &Scenario{Format: 1, Property: "C10", Engine: "A", World: w, Inv: inv, Plan: pl, Params: c10Params{Mode: "stdout", RefOpts: refopts}}
		if v := judgeC10(c, sc); v != nil {
			c.Fail(rt, sc, v.Class, v.Detail)
		}
	default: // enumeration of every fault point of a small world
		w, inv, refopts := genC10Base(g, true)
		sc := &Scenario{Format: 1, Property: "C10", Engine: "A", World: w, Inv: inv, Plan: Plan{Peers: map[string]*PeerPlan{}},
			Params: c10Params{Mode: "enum", RefOpts: refopts}}
		for _, k := range peerKinds {
			sc.Plan.Peers[k] = &PeerPlan{PipeCap: -1}
		}
		key := sc.Hash()
		if c.enumCache == nil {
			c.enumCache = map[string]*enumResult{}
		}
		er, ok := c.enumCache[key]
		if !ok {
			er = enumerateC10(c, sc)
			c.enumCache = map[string]*enumResult{key: er}
		}
		if er.v != nil {
			c.Fail(rt, er.sc, er.v.Class, er.v.Detail)
		}
	}
}

// modeTable: 45 % random faults, 8 % invalid input, 9 % missing objects,
// 25 % one-shot command failures, 5 % shallow / absent, 8 % enumeration, 8 % many
// pending requests with an early death, 5 % stdout write errors.
var modeTable = func() []int {
	var t []int
	add := func(mode, n int) {
		for i := 0; i < n; i++ {
			t = append(t, mode)
		}
	}
	add(0, 45)
	add(11, 8)
	add(13, 9)
	add(15, 25)
	add(17, 5)
	add(19, 8)
	add(21, 8)
	add(23, 5)
	return t
}()

type enumResult struct {
	sc *Scenario
	v  *Violation
}

func (g G) PickInt(xs []int, label string) int { return xs[g.Pick(len(xs), label)] }

// enumerateC10 tries every single-fault point of the scenario.
func enumerateC10(c *Ctx, sc0 *Scenario) *enumResult {
	site, err := Materialise(sc0.World)
	if err != nil {
		return &enumResult{}
	}
	defer site.Close()
	if !verifyRoots(c, site, sc0.Inv.Roots) {
		return &enumResult{}
	}
	base, ok := baselineOf(c, sc0, site)
	if !ok {
		return &enumResult{}
	}
	totals := map[string]int{}
	for _, st := range base.Run.stages {
		if st.nth == 0 && st.out != nil {
			totals[st.kind] = st.out.total
		}
	}
	stdinLines := map[string]int{"rev-list": len(base.Run.RevListStdin), "batch-check": len(base.Run.BatchCheckIn), "batch": len(base.Run.BatchIn)}
	limit := 700
	if c.Tier == "thorough" {
		limit = 1 << 30
	}
	points := 0
	complete := true
	try := func(kind string, f Fault) *enumResult {
		if points >= limit {
			complete = false
			return nil
		}
		points++
		sc := *sc0
		sc.Plan = Plan{Peers: map[string]*PeerPlan{}}
		for _, k := range peerKinds {
			sc.Plan.Peers[k] = &PeerPlan{PipeCap: -1}
		}
		sc.Plan.Peers[kind] = &PeerPlan{PipeCap: -1, Faults: []Fault{f}}
		// the same fault point is met under three pipe regimes in turn:
		// unbounded single writes, rendezvous with 1-byte writes, 4 KiB with torn lines
		switch points % 3 {
		case 1:
			for _, k := range peerKinds {
				sc.Plan.Peers[k].PipeCap = 0
				sc.Plan.Peers[k].Chunks = []int{1}
				sc.Plan.Peers[k].Yields = []int{1, 0, 2}
			}
			sc.Plan.GoYields = []int{0, 1, 0, 0, 2}
		case 2:
			for _, k := range peerKinds {
				sc.Plan.Peers[k].PipeCap = 4096
				sc.Plan.Peers[k].Chunks = []int{41, 0, 7}
				sc.Plan.Peers[k].ReadChunks = []int{13, 0}
			}
		}
		if v := runFaulted(c, &sc, site, base.Stdout, false); v != nil {
			return &enumResult{&sc, v}
		}
		return nil
	}
	four := dieKinds[:4]
	for _, kind := range peerKinds {
		total, seen := totals[kind]
		if !seen {
			continue
		}
		c.Stats.Probe("enum-peer-" + kind)
		var offs []int
		if total <= 512 || c.Tier == "thorough" && total <= 4096 {
			for i := 0; i <= total; i++ {
				offs = append(offs, i)
			}
		} else {
			offs = append(offs, 0, 1, total-1, total)
			for i := 41; i < total; i += 41 * (1 + total/2000) {
				offs = append(offs, i-1, i, i+1)
			}
		}
		for i, off := range offs {
			boundary := off == 0 || off == total
			for j, dk := range four {
				if !boundary && j != i%4 {
					continue
				}
				f := dk
				f.AtByte, f.StdinLines = off, -1
				if r := try(kind, f); r != nil {
					return r
				}
			}
		}
		for _, dk := range dieKinds {
			f := dk
			f.AtByte, f.StdinLines = -1, -1
			if r := try(kind, f); r != nil {
				return r
			}
		}
		if n, ok := stdinLines[kind]; ok {
			kset := map[int]bool{0: true, 1: true, n / 2: true, n - 1: true, n: true}
			var ks []int
			for k := range kset {
				ks = append(ks, k)
			}
			sort.Ints(ks) // never iterate a map where the order decides what runs
			for _, k := range ks {
				if k < 0 {
					continue
				}
				for _, dk := range four[1:3] {
					f := dk
					f.AtByte, f.StdinLines = -1, k
					if r := try(kind, f); r != nil {
						return r
					}
				}
			}
		}
	}
	// lost output: the cat-file --batch stream ends at every offset in turn
	// while the process reports success (own budget of points)
	if total, seen := totals["batch"]; seen {
		saved := points
		points = 0
		if c.Tier != "thorough" {
			limit = 400
		}
		step := 1
		if total > limit {
			step = 1 + total/limit
		}
		// from the end backwards: the last requested objects are the annotated tags
		for off := total - 1; off >= 0; off -= step {
			if r := try("batch", Fault{Kind: "truncate", AtByte: off, StdinLines: -1}); r != nil {
				return r
			}
		}
		c.Stats.Extra["enum_lost_output_points"] += float64(points)
		points += saved
	}
	// a sample of the enumerated points is judged again by real processes
	// (engine B): exit statuses and signals as exec.Cmd and go-pipe really see them
	if os.Getenv("VERIF_GITSIZER_BIN") != "" && !hasArg(sc0.Inv.Args, "--progress") {
		b := *sc0
		b.Plan = Plan{Peers: map[string]*PeerPlan{}}
		rb := RunB(&b, site, BOpts{})
		if !rb.Failed && !rb.Hang && rb.Panic == "" {
			n := 0
			for _, kind := range peerKinds {
				total, seen := totals[kind]
				if !seen {
					continue
				}
				for _, off := range []int{0, total / 2, total, -1} {
					dk := four[(n+off+len(kind))%4]
					if off < 0 {
						off = -1
					}
					f := dk
					f.AtByte, f.StdinLines = off, -1
					sc := *sc0
					sc.Plan = Plan{Peers: map[string]*PeerPlan{kind: {PipeCap: -1, Faults: []Fault{f}}}}
					n++
					if v := runFaultedB(c, &sc, site, rb.Stdout); v != nil {
						return &enumResult{&sc, v}
					}
				}
			}
			c.Stats.Extra["enum_points_mirrored_on_engine_B"] += float64(n)
		}
	}
	c.Stats.Probe("enum-worlds")
	c.Stats.Extra["enum_fault_points"] += float64(points)
	if complete {
		c.Stats.Probe("enum-worlds-complete")
	}
	return &enumResult{}
}

func judgeC10(c *Ctx, sc *Scenario) *Violation {
	var p c10Params
	decodeParams(sc, &p)
	w := sc.World
	site, err := Materialise(w)
	if err != nil {
		c.Stats.Trouble = append(c.Stats.Trouble, "materialise: "+err.Error())
		return nil
	}
	defer site.Close()
	switch p.Mode {
	case "enum":
		er := enumerateC10(c, sc)
		return er.v
	case "fault", "oneshot":
		if !verifyRoots(c, site, sc.Inv.Roots) {
			return nil
		}
		base, ok := baselineOf(c, sc, site)
		if !ok {
			return nil
		}
		if p.Mode == "oneshot" {
			return judgeOneshot(c, sc, site, base.Stdout, p.EngineB)
		}
		rsc := resolveFromEnd(sc, base)
		if v := runFaulted(c, rsc, site, base.Stdout, false); v != nil {
			sc.Log = rsc.Log
			return v
		}
		if p.EngineB {
			// engine B judges process semantics of the same fault; its
			// baseline is its own fault-free run
			b := *sc
			b.Plan = planWithoutFaults(sc.Plan)
			rb := RunB(&b, site, BOpts{})
			if rb.Failed || rb.Hang || rb.Panic != "" {
				c.Stats.Probe("engine-B-baseline-not-clean")
				return nil
			}
			if !hasArg(sc.Inv.Args, "--progress") && !bytes.Equal(rb.Stdout, base.Stdout) {
				c.Stats.Probe("engine-B-baseline-differs-from-engine-A")
			}
			bsc := *sc
			return runFaultedB(c, &bsc, site, rb.Stdout)
		}
		return nil
	case "stdout":
		if !verifyRoots(c, site, sc.Inv.Roots) {
			return nil
		}
		res := RunA(c.T, c.H, sc, site)
		c.Stats.AddResult(res)
		c.Stats.Evaluations++
		if res.Panic != "" {
			return &Violation{"C10/panic", firstLines(res.Panic, 8)}
		}
		if res.Hang {
			return &Violation{"C10/hang", "stdout write error"}
		}
		if res.StdoutFailed {
			c.Stats.Nontrivial[sc.Hash()] = true
			if !res.Failed {
				return &Violation{"C10/exit0-with-incomplete-report", fmt.Sprintf("stdout failed with ENOSPC after %d bytes (args %q), yet the run reported success", sc.Plan.StdoutFailAt-1, sc.Inv.Args)}
			}
		}
		if sc.Plan.StdoutFailAt == 1 && os.Getenv("VERIF_GITSIZER_BIN") != "" && fnv64(sc.Hash())%3 == 0 {
			// the real binary with stdout on /dev/full
			b := *sc
			b.Plan = Plan{}
			rb := RunB(&b, site, BOpts{StdoutFull: true})
			c.Stats.CLIRuns++
			c.Stats.FaultsFired["engineB-stdout-on-/dev/full"]++
			if rb.Hang {
				return &Violation{"C10/hang", "engine B with stdout on /dev/full"}
			}
			if !rb.Failed {
				return &Violation{"C10/exit0-with-incomplete-report", fmt.Sprintf("engine B: stdout is /dev/full (args %q), exit status 0", sc.Inv.Args)}
			}
		}
		return nil
	case "invalid":
		res := RunA(c.T, c.H, sc, site)
		c.Stats.AddResult(res)
		c.Stats.Evaluations++
		c.Stats.Nontrivial[sc.Hash()] = true
		c.Stats.FaultsFired["invalid-input:"+p.Invalid]++
		if v := judgeOutcome(res, nil, true, "invalid input ("+p.Invalid+") args="+fmt.Sprintf("%q", sc.Inv.Args), false); v != nil {
			return v
		}
		if os.Getenv("VERIF_GITSIZER_BIN") != "" && (p.EngineB || fnv64(sc.Hash())%2 == 0 || len(res.Run.Unmodelled) > 0) {
			// the same command line judged by real processes: real git decides
			// what its own options make of the invalid input
			b := *sc
			b.Plan = Plan{}
			rb := RunB(&b, site, BOpts{})
			c.Stats.CLIRuns++
			c.Stats.FaultsFired["engineB-invalid-input:"+p.Invalid]++
			return judgeOutcome(rb, nil, true, "engine B: invalid input ("+p.Invalid+") args="+fmt.Sprintf("%q", sc.Inv.Args), true)
		}
		return nil
	case "shallow", "absent":
		if p.Mode == "absent" && os.Getenv("VERIF_GITSIZER_BIN") != "" && fnv64(sc.Hash())%2 == 0 {
			// no usable git at all: the real binary with an empty PATH
			b := *sc
			b.Plan = Plan{}
			b.Inv.Cwd = "top"
			b.Inv.Env = map[string]string{"PATH": filepath.Join(site.Root, "no-such-dir")}
			rb := RunB(&b, site, BOpts{NoShim: true})
			c.Stats.CLIRuns++
			c.Stats.FaultsFired["engineB-git-not-on-PATH"]++
			if v := judgeOutcome(rb, nil, true, "git is not on PATH (engine B)", true); v != nil {
				return v
			}
		}
		res := RunA(c.T, c.H, sc, site)
		c.Stats.AddResult(res)
		c.Stats.Evaluations++
		c.Stats.Nontrivial[sc.Hash()] = true
		c.Stats.FaultsFired[p.Mode+"-repository"]++
		return judgeOutcome(res, nil, true, p.Mode+" repository", false)
	case "missing":
		if len(sc.Inv.Roots) > 0 {
			// ROOT expressions are resolved by real git: a missing object
			// there is an invalid ROOT, also a failure
			for _, r := range sc.Inv.Roots {
				if o := w.Get(r.OID); o != nil && o.Missing {
					c.Stats.Probe("missing-object-is-a-root")
				}
			}
		}
		gm, _, err := groupModelFor(site)
		if err != nil {
			return nil
		}
		sel := &Selection{Opts: p.RefOpts, HasRoots: len(sc.Inv.Roots) > 0, GM: gm}
		roots := walkedRoots(w, sel, sc.Inv.Roots)
		ex := w.Expect(roots)
		// a ref (walked or not) whose target is missing makes for-each-ref fail
		refBroken := false
		for _, r := range w.AllRefs() {
			if o := w.Get(r.OID); o == nil || o.Missing {
				refBroken = true
			}
		}
		// a ROOT that real git cannot resolve any more
		rootBroken := false
		for _, r := range sc.Inv.Roots {
			out, err := site.Git(nil, "--no-replace-objects", "rev-parse", "--verify", "--end-of-options", r.Expr)
			if err != nil || strings.TrimSpace(string(out)) != r.OID {
				rootBroken = true
			}
		}
		needed := len(ex.MissingNeeded) > 0
		res := RunA(c.T, c.H, sc, site)
		c.Stats.AddResult(res)
		c.Stats.Evaluations++
		if needed {
			c.Stats.Nontrivial[sc.Hash()] = true
			c.Stats.FaultsFired["missing-reachable-object"]++
		}
		why := fmt.Sprintf("objects removed; needed=%v (%v) ref-target-missing=%v root-unresolvable=%v", needed, ex.MissingNeeded, refBroken, rootBroken)
		if needed || rootBroken {
			if v := judgeOutcome(res, nil, true, why, false); v != nil {
				return v
			}
			if os.Getenv("VERIF_GITSIZER_BIN") != "" && (fnv64(sc.Hash())%2 == 0 || len(res.Run.Unmodelled) > 0) {
				// real git on the same damaged object store
				b := *sc
				b.Plan = Plan{}
				rb := RunB(&b, site, BOpts{})
				c.Stats.CLIRuns++
				c.Stats.FaultsFired["engineB-missing-reachable-object"]++
				return judgeOutcome(rb, nil, true, "engine B: "+why, true)
			}
			return nil
		}
		if refBroken {
			// git's own for-each-ref decides: either outcome is legal, but
			// never a partial or wrong report
			if res.Failed {
				return judgeOutcome(res, nil, true, why, false)
			}
		}
		// not needed: must equal the run on the intact repository
		intact := w.Clone()
		for _, o := range intact.Objects {
			o.Missing = false
		}
		isc := *sc
		isc.World = intact
		isite, err := Materialise(intact)
		if err != nil {
			return nil
		}
		defer isite.Close()
		bres := RunA(c.T, c.H, &isc, isite)
		c.Stats.AddResult(bres)
		if bres.Failed || bres.Panic != "" {
			return nil
		}
		return judgeOutcome(res, bres.Stdout, false, why, false)
	}
	return nil
}

func runFaultedB(c *Ctx, sc *Scenario, site *Site, base []byte) *Violation {
	why := "engine B: " + describeFaults(&sc.Plan)
	res := RunB(sc, site, BOpts{})
	c.Stats.CLIRuns++
	c.Stats.Evaluations++
	c.Stats.Probe("engine-B-runs")
	fired := false
	for k, n := range res.Run.FaultsFired {
		if n > 0 {
			fired = true
			c.Stats.FaultsFired["engineB-"+k] += n
		}
	}
	if !fired {
		why += " [proxy rule not reached]"
	}
	return judgeOutcome(res, base, fired, why, true)
}

func judgeOneshot(c *Ctx, sc *Scenario, site *Site, base []byte, engineB bool) *Violation {
	// engine A with the proxy first on PATH (real processes either way)
	fired := filepath.Join(site.Root, "oneshot-fired")
	os.Remove(fired)
	os.Setenv("VERIF_SHIM_FIRED", fired)
	defer os.Unsetenv("VERIF_SHIM_FIRED")
	site.Env = append(site.Env, "VERIF_SHIM_FIRED="+fired)
	res := RunA(c.T, c.H, sc, site)
	c.Stats.AddResult(res)
	c.Stats.Evaluations++
	did := false
	if b, err := os.ReadFile(fired); err == nil && len(bytes.TrimSpace(b)) > 0 {
		did = true
		c.Stats.FaultsFired["oneshot:"+sc.Plan.Oneshot[0].Match]++
		c.Stats.Nontrivial[sc.Hash()] = true
	}
	why := describeFaults(&sc.Plan)
	if !did {
		why += " [command not reached]"
	}
	if v := judgeOutcome(res, base, did, why, false); v != nil {
		return v
	}
	if engineB {
		os.Remove(fired)
		// engine B is compared with its own fault-free run (real git may
		// deliver objects in another order than the plan drew for the stub,
		// which legitimately changes which witness is named)
		b := *sc
		b.Plan = planWithoutFaults(sc.Plan)
		b.Plan.Oneshot = nil
		rb := RunB(&b, site, BOpts{})
		if rb.Failed || rb.Hang || rb.Panic != "" {
			c.Stats.Probe("engine-B-baseline-not-clean")
			return nil
		}
		return runFaultedB(c, sc, site, rb.Stdout)
	}
	return nil
}

func init() {
	Register(&Prop{ID: "C10", Prefix: c10Prefix, Check: checkC10, Replay: judgeC10,
		Rule:       "fault-free baseline, then (a) enumeration: for small generated worlds every output offset of each of the four streaming git commands x {exit 1, exit 128, SIGKILL, SIGPIPE} (all four at offsets 0 and end, rotating in between), 'fails after complete output' x 8 statuses, and death after k stdin lines; (b) exploration: 1-3 random faults combined with chunking / delays / stalls, one-shot git command failures through the proxy (real processes), invalid option values and ROOTs, shallow and absent repositories, removed objects; a sample of single faults is mirrored on the real binary behind the proxy (engine B). non-trivial: the fault actually fired (the peer reached the fault point / the proxy rule matched / the removed object was needed); distinct by scenario hash",
		Components: componentsA})
}
