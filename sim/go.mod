module verif/sim

go 1.23

require (
	github.com/github/go-pipe v1.0.2
	pgregory.net/rapid v1.3.0
)

require golang.org/x/sync v0.1.0 // indirect

replace github.com/github/go-pipe => ./third_party/go-pipe
