package sim

import (
	"io"
	"time"
)

// GraphAPI lets the harness feed git-sizer's sizes.Graph directly.
type GraphAPI interface {
	// NewGraph returns a fresh graph handle.
	NewGraph(nameStyle int) GraphHandle
}

type GraphHandle interface {
	RegisterBlob(oid string, size uint64)
	RegisterTree(oid string, body []byte) error
	RegisterCommit(oid string, body []byte) error
	RegisterTag(oid string, body []byte) error
	// HistoryJSON returns JSON v1 of HistorySize().
	HistoryJSON() ([]byte, error)
}

// MeterAPI exposes the progress meter.
type MeterAPI interface {
	New(w io.Writer, period time.Duration) MeterHandle
	// SetYield installs the simulation yield hook (nil to remove). It
	// reports false if the hook is not compiled in.
	SetYield(f func(point string)) bool
}

type MeterHandle interface {
	Start(format string)
	Inc()
	Add(delta int64)
	Done()
}

// ParserAPI exposes the object and listing parsers.
type ParserAPI interface {
	// TreeEntries parses a tree and returns its entries.
	TreeEntries(body []byte) ([]ParsedEntry, error)
	Commit(oid string, body []byte) (tree string, parents []string, size uint64, err error)
	Tag(oid string, body []byte) (referent, typ string, size uint64, err error)
	Reference(line string) (refname, typ, oid string, size uint64, err error)
	BatchHeader(line string) (oid, typ string, size uint64, err error)
}

type ParsedEntry struct {
	Mode uint32
	Name string
	OID  string
}
