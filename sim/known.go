package sim

import (
	"encoding/json"
	"os"
	"path/filepath"
	"strings"
)

// KnownFinding is one entry of /verif/known_findings.json. Only entries
// with Status "known" suppress anything, and only violations of their
// Class whose scenario satisfies the entry's shape predicate (implemented
// in code, keyed by ID).
type KnownFinding struct {
	ID          string `json:"id"`
	Status      string `json:"status"` // "known" | "fixed"
	Property    string `json:"property"`
	Class       string `json:"class"`
	Shape       string `json:"shape"`
	Commit      string `json:"commit,omitempty"`
	Description string `json:"description"`
}

func loadKnown() []KnownFinding {
	b, err := os.ReadFile(filepath.Join(VerifHome(), "known_findings.json"))
	if err != nil {
		return nil
	}
	var all []KnownFinding
	if json.Unmarshal(b, &all) != nil {
		return nil
	}
	return all
}

// shapePredicates decide whether a violation is the listed finding.
var shapePredicates = map[string]func(sc *Scenario, class, detail string) bool{}

func (c *Ctx) matchKnown(sc *Scenario, class, detail string) *KnownFinding {
	for i := range c.Known {
		kf := &c.Known[i]
		if kf.Status != "known" {
			continue
		}
		if kf.Class != class && !strings.HasPrefix(class, kf.Class+":") {
			continue
		}
		pred := shapePredicates[kf.ID]
		if pred == nil || !pred(sc, class, detail) {
			continue
		}
		return kf
	}
	return nil
}
