package sim

// C08: footnotes name a real witness of each maximum, and every
// description is a revision expression that resolves to the cited object.

import (
	"fmt"
	"regexp"
	"strconv"
	"strings"
	"unicode/utf8"

	"pgregory.net/rapid"
)

type c08Params struct {
	RefOpts []RefOpt `json:"refopts,omitempty"`
	Names   string   `json:"names"`
	Format  string   `json:"format"`
}

var oidDescRe = regexp.MustCompile(`(?s)^([0-9a-f]{40})(?: \((.*)\))?$`)

type citation struct {
	metric Metric
	oid    string
	desc   string
	where  string
}

// collectCitations extracts (metric, oid, description) triples from a report.
func collectCitations(format string, out []byte) ([]citation, *Violation) {
	var cs []citation
	switch format {
	case "json1":
		m, err := ParseJSONObject(out)
		if err != nil {
			return nil, &Violation{"C08/bad-json", err.Error()}
		}
		for _, me := range Metrics {
			if me.CiteV1 == "" {
				continue
			}
			v, ok := m[me.CiteV1]
			if !ok {
				continue
			}
			s, ok := v.(string)
			if !ok {
				return nil, &Violation{"C08/citation-format", fmt.Sprintf("%s = %v", me.CiteV1, v)}
			}
			mm := oidDescRe.FindStringSubmatch(s)
			if mm == nil {
				return nil, &Violation{"C08/citation-format", fmt.Sprintf("%s = %q", me.CiteV1, s)}
			}
			cs = append(cs, citation{me, mm[1], mm[2], "JSON v1 " + me.CiteV1})
		}
	case "json2":
		m, err := ParseJSONObject(out)
		if err != nil {
			return nil, &Violation{"C08/bad-json", err.Error()}
		}
		for _, me := range Metrics {
			it, ok := m[me.Symbol].(map[string]interface{})
			if !ok {
				continue
			}
			on, ok := it["objectName"].(string)
			if !ok {
				continue
			}
			od, _ := it["objectDescription"].(string)
			if me.CiteV1 == "" {
				return nil, &Violation{"C08/unexpected-citation", me.Symbol + " cites " + on}
			}
			cs = append(cs, citation{me, on, od, "JSON v2 " + me.Symbol})
		}
	default:
		tb, err := ParseTable(out)
		if err != nil {
			return nil, &Violation{"C08/table", err.Error()}
		}
		byRow := map[string]Metric{}
		for _, me := range Metrics {
			byRow[me.Row] = me
		}
		for _, r := range tb.Rows {
			if !r.IsItem {
				continue
			}
			me, ok := byRow[tb.Key(r)]
			if !ok || r.Cite == 0 {
				continue
			}
			if r.Cite > len(tb.Footnotes) {
				return nil, &Violation{"C08/citation-without-footnote", fmt.Sprintf("%s cites [%d], %d footnotes", me.Row, r.Cite, len(tb.Footnotes))}
			}
			if me.CiteV1 == "" {
				return nil, &Violation{"C08/unexpected-citation", me.Row}
			}
			fn := tb.Footnotes[r.Cite-1]
			mm := oidDescRe.FindStringSubmatch(fn)
			if mm == nil {
				return nil, &Violation{"C08/citation-format", fmt.Sprintf("footnote [%d] = %q", r.Cite, fn)}
			}
			cs = append(cs, citation{me, mm[1], mm[2], "table " + me.Row})
		}
	}
	return cs, nil
}

func judgeC08(c *Ctx, sc *Scenario) *Violation {
	var p c08Params
	decodeParams(sc, &p)
	w := sc.World
	site, err := Materialise(w)
	if err != nil {
		return nil
	}
	defer site.Close()
	if !verifyRoots(c, site, sc.Inv.Roots) {
		return nil
	}
	gm, _, err := groupModelFor(site)
	if err != nil {
		return nil
	}
	sel := &Selection{Opts: p.RefOpts, HasRoots: len(sc.Inv.Roots) > 0, GM: gm}
	roots := walkedRoots(w, sel, sc.Inv.Roots)
	ex := w.Expect(roots)
	res := RunA(c.T, c.H, sc, site)
	c.Stats.AddResult(res)
	c.Stats.Evaluations++
	if res.Panic != "" {
		return &Violation{"C08/panic", firstLines(res.Panic, 8)}
	}
	if res.Hang {
		return &Violation{"C08/hang", ""}
	}
	if res.Failed {
		return &Violation{"C08/run-failed", res.Err}
	}
	cs, v := collectCitations(p.Format, res.Stdout)
	if v != nil {
		return v
	}
	if p.Names == "none" {
		if len(cs) > 0 {
			return &Violation{"C08/citation-with-names-none", fmt.Sprintf("%s cites %s", cs[0].where, cs[0].oid)}
		}
		if p.Format == "table" && regexp.MustCompile(`(?m)^\[\d+\] `).Match(res.Stdout) {
			return &Violation{"C08/citation-with-names-none", "footnotes present"}
		}
		return nil
	}
	described := 0
	for _, ci := range cs {
		k, ok := ex.Closure[ci.oid]
		if !ok {
			return &Violation{"C08/cited-object-unreachable", fmt.Sprintf("%s cites %s, which is not reachable from the chosen roots", ci.where, ci.oid)}
		}
		if k != ci.metric.Kind {
			return &Violation{"C08/cited-object-kind", fmt.Sprintf("%s cites a %s (%s), expected a %s", ci.where, k, ci.oid, ci.metric.Kind)}
		}
		if !ex.Witness[ci.metric.Witness][ci.oid] {
			return &Violation{"C08/cited-object-not-a-witness", fmt.Sprintf("%s cites %s, which does not attain the reported value %s (witnesses: %v)", ci.where, ci.oid, ex.True[ci.metric.Witness], keysOf(ex.Witness[ci.metric.Witness]))}
		}
		if p.Names == "hash" || p.Names == "sha1" || p.Names == "sha-1" {
			if ci.desc != "" {
				return &Violation{"C08/description-with-names-hash", fmt.Sprintf("%s: %q", ci.where, ci.desc)}
			}
			continue
		}
		if ci.desc == "" {
			continue
		}
		described++
		out, err := site.Git(nil, "--no-replace-objects", "rev-parse", "--verify", "--end-of-options", ci.desc)
		got := strings.TrimSpace(string(out))
		if err != nil || got != ci.oid {
			cls := "C08/unresolvable-description"
			if err == nil {
				cls = "C08/description-resolves-to-other-object"
			}
			return &Violation{cls, fmt.Sprintf("%s: %s is described as %q; git rev-parse --verify gives %q (%v)", ci.where, ci.oid, ci.desc, got, errStr(err))}
		}
		c.Stats.Extra["descriptions_resolved_by_git"]++
	}
	if described >= 2 {
		c.Stats.Nontrivial[sc.Hash()] = true
	}
	c.Stats.Sample(map[string]interface{}{"args": sc.Inv.Args, "citations": len(cs), "described": described})
	return nil
}

func errStr(err error) string {
	if err == nil {
		return "ok"
	}
	return firstLines(err.Error(), 2)
}

func keysOf(m map[string]bool) []string {
	var out []string
	for k := range m {
		out = append(out, k[:8])
		if len(out) >= 6 {
			break
		}
	}
	return out
}

func checkC08(c *Ctx, rt *rapid.T) {
	g := G{rt}
	opts := DefaultGen
	opts.NameStyle = g.Pick(3, "namestyle")
	opts.ExoticRefNames = g.Bool("exoticrefs")
	opts.MaxTags = 6
	w := GenWorld(g, opts)
	gm := NewGroupModel()
	refopts := GenRefOpts(g, w, gm, InvOpts{RefOpts: true, MaxRefOpts: 2})
	roots := GenRoots(g, w)
	p := c08Params{RefOpts: refopts}
	p.Format = g.PickStr([]string{"json1", "json2", "table", "table"}, "format")
	p.Names = g.PickStr([]string{"full", "full", "full", "hash", "none", "default"}, "names")
	fixed := FormatArgs(g, p.Format)
	if p.Names != "default" {
		fixed = append(fixed, "--names="+p.Names)
	} else {
		p.Names = "full"
	}
	if p.Format == "table" {
		fixed = append(fixed, "-v")
	}
	inv := BuildInvocation(g, fixed, refopts, roots, []string{"top"}, w)
	sc := &Scenario{Format: 1, Property: "C08", Engine: "A", World: w, Inv: inv, Plan: GenPlan(g, true), Params: p}
	if v := judgeC08(c, sc); v != nil {
		c.Fail(rt, sc, v.Class, v.Detail)
	}
}

func init() {
	Register(&Prop{ID: "C08", Check: checkC08, Replay: judgeC08, Components: componentsA,
		Rule: "generated worlds (plain / mixed / hostile file names, exotic reference names, objects reachable only through annotated tags, references and ROOTs naming trees and blobs, ROOT forms oid, ref, oid^{tree}, oid^n, tree:path, tag^{}, treeish: with an empty path) x name styles x table / JSON v1 / JSON v2 x adversarial delivery orders; every cited object id must be reachable, of the right kind and in the model's witness set for the metric; every description is handed to real `git rev-parse --verify --end-of-options` in the materialised repository and must print exactly the cited id; --names=none cites nothing. non-trivial: >= 2 descriptions resolved by git; distinct by scenario hash"})
}

func init() {
	// the finding is identified by the failing shape, not by its text
	shapePredicates["F-C08-json-non-utf8-description"] = func(sc *Scenario, class, detail string) bool {
		var p c08Params
		decodeParams(sc, &p)
		if p.Format != "json1" && p.Format != "json2" {
			return false
		}
		if p.Names != "full" {
			return false
		}
		// the description as printed must contain U+FFFD, and the world must
		// really contain a name that is not valid UTF-8
		if !strings.Contains(detail, "�") {
			return false
		}
		return worldHasNonUTF8Name(sc)
	}
}

func worldHasNonUTF8Name(sc *Scenario) bool {
	for _, o := range sc.World.Objects {
		if o.Kind != KTree {
			continue
		}
		es, _ := DecodeTree(o.Body)
		for _, e := range es {
			if !utf8.ValidString(e.Name) {
				return true
			}
		}
	}
	for _, r := range sc.World.Refs {
		if !utf8.ValidString(r.Name) {
			return true
		}
	}
	for _, r := range sc.Inv.Roots {
		if !utf8.ValidString(r.Expr) {
			return true
		}
	}
	return false
}

func init() {
	shapePredicates["F-C08-dotdot-path-parsed-as-range"] = func(sc *Scenario, class, detail string) bool {
		// rev-parse answered with a range: "<id>\n^<id>"
		if !strings.Contains(detail, `\n^`) {
			return false
		}
		i := strings.Index(detail, "is described as ")
		if i < 0 || !strings.Contains(detail[i:], "..") {
			return false
		}
		for _, o := range sc.World.Objects {
			if o.Kind != KTree {
				continue
			}
			es, _ := DecodeTree(o.Body)
			for _, e := range es {
				if strings.Contains(e.Name, "..") {
					return true
				}
			}
		}
		return false
	}
}

func init() {
	shapePredicates["F-C08-peel-suffix-swallows-path"] = func(sc *Scenario, class, detail string) bool {
		desc := describedAs(detail)
		return desc != "" && strings.HasSuffix(desc, "}") && strings.Contains(desc, "^{")
	}
}

// describedAs extracts the description from a C08 violation detail
// (`... is described as "<desc>"; git rev-parse ...`).
func describedAs(detail string) string {
	const a, b = `is described as "`, `"; git rev-parse`
	i := strings.Index(detail, a)
	j := strings.LastIndex(detail, b)
	if i < 0 || j < i+len(a) {
		return ""
	}
	q := `"` + detail[i+len(a):j] + `"`
	if s, err := strconv.Unquote(q); err == nil {
		return s
	}
	return detail[i+len(a) : j]
}

func init() {
	shapePredicates["F-C08-peel-suffix-swallows-path-unresolvable"] = shapePredicates["F-C08-peel-suffix-swallows-path"]
}
