package sim

// SimGit: in-process simulated peers for the four streaming git commands.

import (
	"bufio"
	"bytes"
	"context"
	"errors"
	"fmt"
	"io"
	"os"
	"os/exec"
	"path/filepath"
	"sort"
	"strconv"
	"strings"
	"sync"
	"time"

	"github.com/github/go-pipe/pipe"
)

// Run is the state of one simulated execution.
type Run struct {
	sc   *Scenario
	w    *World
	site *Site

	mu     sync.Mutex
	seq    int
	events []Event
	t0     time.Time

	// traffic recorded at the simulated boundary
	RevListStdin  []string
	BatchCheckIn  []string
	BatchIn       []string
	ForEachRefRan int
	ArgProblems   []string
	Unmodelled    []string // options the stub does not model (it behaves as if they were absent)
	FaultsFired   map[string]int
	peerN         map[string]int
	stages        []*simStage
}

func (r *Run) log(actor, ev string, n int) {
	r.mu.Lock()
	r.events = append(r.events, Event{Seq: r.seq, TNS: int64(time.Since(r.t0)), Actor: actor, Ev: ev, N: n})
	r.seq++
	r.mu.Unlock()
}

func (r *Run) fired(kind string) {
	r.mu.Lock()
	if r.FaultsFired == nil {
		r.FaultsFired = map[string]int{}
	}
	r.FaultsFired[kind]++
	r.mu.Unlock()
}

var actorIndex = map[string]int{"for-each-ref": 1, "rev-list": 2, "batch-check": 3, "batch": 4}

// classify returns the peer kind for a git argv ("" if not a streaming
// command) and the subcommand arguments.
func classify(args []string) (string, []string) {
	i := 1
	for i < len(args) {
		a := args[i]
		if a == "-c" || a == "-C" {
			i += 2
			continue
		}
		if strings.HasPrefix(a, "-") {
			i++
			continue
		}
		break
	}
	if i >= len(args) {
		return "", nil
	}
	sub, rest := args[i], args[i+1:]
	has := func(f string) bool {
		for _, a := range rest {
			if a == f {
				return true
			}
		}
		return false
	}
	switch sub {
	case "rev-list":
		return "rev-list", rest
	case "for-each-ref":
		return "for-each-ref", rest
	case "cat-file":
		if has("--batch-check") {
			return "batch-check", rest
		}
		if has("--batch") {
			return "batch", rest
		}
	}
	return "", nil
}

// modelledArg: the options the stub implements (exactly what git-sizer
// passes today). Anything else is ignored by the stub and recorded, so that
// the checks know to ask real git as well.
func modelledArg(kind, a string) bool {
	switch kind {
	case "rev-list":
		return a == "--objects" || a == "--stdin" || a == "--date-order"
	case "batch-check":
		return a == "--batch-check" || a == "--buffer"
	case "batch":
		return a == "--batch" || a == "--buffer"
	case "for-each-ref":
		return strings.HasPrefix(a, "--format=")
	}
	return true
}

func hasArg(args []string, f string) bool {
	for _, a := range args {
		if a == f {
			return true
		}
	}
	return false
}

func envOf(cmd *exec.Cmd, key string) (string, bool) {
	env := cmd.Env
	if env == nil {
		env = os.Environ()
	}
	val, ok := "", false
	for _, kv := range env {
		if strings.HasPrefix(kv, key+"=") {
			val, ok = kv[len(key)+1:], true
		}
	}
	return val, ok
}

// Factory is installed as pipe.SimCommandStage for the duration of a run.
func (r *Run) Factory(name string, cmd *exec.Cmd) pipe.Stage {
	if r.sc.Plan.RealPeers {
		return nil
	}
	kind, rest := classify(cmd.Args)
	if kind == "" {
		return nil
	}
	r.mu.Lock()
	if r.peerN == nil {
		r.peerN = map[string]int{}
	}
	n := r.peerN[kind]
	r.peerN[kind]++
	r.mu.Unlock()
	for _, a := range rest {
		if !modelledArg(kind, a) {
			r.mu.Lock()
			r.Unmodelled = append(r.Unmodelled, kind+" "+a)
			r.mu.Unlock()
		}
	}
	st := &simStage{name: name, run: r, kind: kind, args: rest, full: cmd.Args, done: make(chan struct{}), nth: n}
	st.plan = r.sc.Plan.Peer(kind)
	// Does the process address the right repository?
	gd, ok := envOf(cmd, "GIT_DIR")
	if !ok {
		st.startupFatal = "fatal: GIT_DIR not set for simulated git"
	} else {
		dir := cmd.Dir
		if !filepath.IsAbs(gd) {
			if dir == "" {
				dir, _ = os.Getwd()
			}
			gd = filepath.Join(dir, gd)
		}
		a, _ := filepath.EvalSymlinks(gd)
		b, _ := filepath.EvalSymlinks(r.site.GitDir)
		if a == "" || a != b {
			st.startupFatal = fmt.Sprintf("fatal: not a git repository: %q", gd)
		}
	}
	r.mu.Lock()
	r.stages = append(r.stages, st)
	r.mu.Unlock()
	return st
}

type simStage struct {
	name string
	run  *Run
	kind string
	args []string
	full []string
	plan *PeerPlan
	nth  int

	startupFatal string

	stdin io.ReadCloser
	out   *simPipe
	done  chan struct{}
	err   error

	killOnce sync.Once
	killed   chan struct{}
}

func (s *simStage) Name() string { return s.name }

func (s *simStage) Start(ctx context.Context, _ pipe.Env, stdin io.ReadCloser) (io.ReadCloser, error) {
	s.stdin = stdin
	s.out = newSimPipe(s.plan.PipeCap, s.plan.ReadChunks)
	s.out.yields = s.plan.Yields
	s.killed = make(chan struct{})
	s.run.log(s.kind, "start", 0)
	go s.actor()
	go func() {
		select {
		case <-ctx.Done():
			s.kill()
		case <-s.done:
		}
	}()
	return readEnd{s.out}, nil
}

// kill models SIGTERM from go-pipe on context cancellation.
func (s *simStage) kill() {
	s.killOnce.Do(func() {
		close(s.killed)
		s.out.CloseWrite()
		if s.stdin != nil {
			s.stdin.Close()
		}
	})
}

func (s *simStage) Wait() error {
	<-s.done
	if s.stdin != nil {
		s.stdin.Close()
	}
	return s.err
}

var errDied = errors.New("simulated process died")

type emitter struct {
	s       *simStage
	written int
	ci, di  int
	slept   time.Duration // total planned delay spent (bounded, see sleepUnits)
	writes  int
	faults  []Fault // sorted by AtByte, -1 last
	idx     int
}

func newEmitter(s *simStage) *emitter {
	e := &emitter{s: s}
	if s.nth == 0 { // faults apply to the first instance of the command in a run
		fs := append([]Fault(nil), s.plan.Faults...)
		sort.SliceStable(fs, func(i, j int) bool {
			a, b := fs[i].AtByte, fs[j].AtByte
			if a < 0 {
				a = 1 << 60
			}
			if b < 0 {
				b = 1 << 60
			}
			return a < b
		})
		e.faults = fs
	}
	return e
}

// die terminates the simulated process with the fault's status.
type dieError struct{ f Fault }

func (d *dieError) Error() string { return "died" }

// sleepUnits spends a planned delay. Each peer has a budget of 60 fake
// seconds of planned delays per run, so that no plan can approach the
// one-hour watchdog however large the stream is.
func (e *emitter) sleepUnits(u int) {
	if u > 0 && e.slept < 60*time.Second {
		d := time.Duration(u*8 + actorIndex[e.s.kind])
		e.slept += d
		time.Sleep(d)
	}
}

// checkFaultAt fires every fault scheduled at exactly the current offset.
func (e *emitter) checkFaultAt() error {
	for e.idx < len(e.faults) {
		f := e.faults[e.idx]
		if f.StdinLines >= 0 || f.AtByte < 0 || f.AtByte > e.written {
			return nil
		}
		e.idx++
		switch f.Kind {
		case "stall":
			e.s.run.fired("stall")
			e.s.run.log(e.s.kind, "stall", int(f.StallNS))
			time.Sleep(time.Duration(f.StallNS))
		default:
			return &dieError{f}
		}
	}
	return nil
}

func (e *emitter) write(data []byte) error {
	p := e.s.plan
	for {
		if err := e.checkFaultAt(); err != nil {
			return err
		}
		if len(data) == 0 {
			return nil
		}
		c := len(data)
		e.writes++
		if len(p.Chunks) > 0 && e.writes <= 4000 { // after 4000 planned chunks the rest goes out in one piece
			k := p.Chunks[e.ci%len(p.Chunks)]
			e.ci++
			if k > 0 && k < c {
				c = k
			}
		}
		if e.idx < len(e.faults) {
			f := e.faults[e.idx]
			if f.StdinLines < 0 && f.AtByte >= 0 && e.written+c > f.AtByte {
				c = f.AtByte - e.written
			}
		}
		if c <= 0 {
			continue
		}
		if len(p.Delays) > 0 {
			e.sleepUnits(p.Delays[e.di%len(p.Delays)])
			e.di++
		}
		n, err := e.s.out.Write(data[:c])
		e.written += n
		e.s.run.log(e.s.kind, "write", n)
		if err != nil {
			return err
		}
		data = data[c:]
	}
}

// finish fires an "after complete output" fault if one is planned.
func (e *emitter) finish() error {
	if err := e.checkFaultAt(); err != nil {
		return err
	}
	for e.idx < len(e.faults) {
		f := e.faults[e.idx]
		e.idx++
		if f.StdinLines < 0 && f.AtByte == -1 && f.Kind != "stall" {
			return &dieError{f}
		}
	}
	return nil
}

// stdinFault returns the planned "die after k input lines" fault, if any.
func (e *emitter) stdinFault() *Fault {
	for i := range e.faults {
		if e.faults[i].StdinLines >= 0 && e.faults[i].Kind != "stall" {
			return &e.faults[i]
		}
	}
	return nil
}

func (s *simStage) actor() {
	defer close(s.done)
	err := s.body()
	s.out.CloseWrite()
	if s.stdin != nil {
		s.stdin.Close()
	}
	select {
	case <-s.killed:
		s.err = context.Canceled
		s.run.log(s.kind, "killed", 0)
		return
	default:
	}
	var de *dieError
	switch {
	case err == nil:
		s.run.log(s.kind, "exit", 0)
	case errors.As(err, &de):
		kind := de.f.Kind
		if de.f.StdinLines >= 0 {
			kind += "+stdin-close"
		}
		s.run.fired(kind)
		if de.f.Kind == "truncate" {
			// the stream simply ends here and the process reports success
			s.run.log(s.kind, "exit", 0)
		} else if de.f.Kind == "signal" {
			s.err = exitError(0, de.f.Signal, "")
			s.run.log(s.kind, "signal", de.f.Signal)
		} else {
			st := de.f.Status
			if st == 0 {
				st = 1
			}
			s.err = exitError(st, 0, "fatal: injected failure\n")
			s.run.log(s.kind, "exit", st)
		}
	case errors.Is(err, errEPIPE):
		// the reader went away: a real process is killed by SIGPIPE
		s.err = exitError(0, 13, "")
		s.run.log(s.kind, "sigpipe", 0)
	default:
		var fe *FatalError
		if errors.As(err, &fe) {
			s.run.fired("git-fatal")
			s.err = exitError(128, 0, fe.Msg+"\n")
			s.run.log(s.kind, "exit", 128)
		} else {
			s.err = exitError(128, 0, "fatal: "+err.Error()+"\n")
			s.run.log(s.kind, "exit", 128)
		}
	}
}

func (s *simStage) body() error {
	if s.startupFatal != "" {
		return &FatalError{s.startupFatal}
	}
	e := newEmitter(s)
	switch s.kind {
	case "rev-list":
		return s.revList(e)
	case "batch-check":
		return s.catFile(e, false)
	case "batch":
		return s.catFile(e, true)
	case "for-each-ref":
		return s.forEachRef(e)
	}
	return fmt.Errorf("unknown peer %q", s.kind)
}

func cyc(list []int) Chooser {
	i := 0
	return func(n int) int {
		if len(list) == 0 || n <= 1 {
			return 0
		}
		k := list[i%len(list)]
		i++
		if k < 0 {
			k = -k
		}
		return k % n
	}
}

func (s *simStage) readLines(e *emitter, each func(line string) error) error {
	if s.stdin == nil {
		return nil
	}
	sf := e.stdinFault()
	br := bufio.NewReader(s.stdin)
	k := 0
	for {
		if sf != nil && k >= sf.StdinLines {
			return &dieError{*sf}
		}
		line, err := br.ReadString('\n')
		if err != nil {
			if line != "" {
				// unterminated last line is still a line for git
				s.run.log(s.kind, "read", len(line))
				if err2 := each(line); err2 != nil {
					return err2
				}
			}
			if err == io.EOF || errors.Is(err, io.ErrClosedPipe) {
				return nil
			}
			return nil
		}
		s.run.log(s.kind, "read", len(line))
		k++
		if err := each(strings.TrimSuffix(line, "\n")); err != nil {
			return err
		}
	}
}

func (s *simStage) revList(e *emitter) error {
	r := s.run
	if err := e.checkFaultAt(); err != nil { // "fails before reading stdin"
		return err
	}
	fl := RevListFlags{Objects: hasArg(s.args, "--objects"), Stdin: hasArg(s.args, "--stdin"),
		DateOrder: hasArg(s.args, "--date-order") || hasArg(s.args, "--topo-order")}
	var roots []string
	if fl.Stdin {
		err := s.readLines(e, func(line string) error {
			roots = append(roots, line)
			return nil
		})
		r.mu.Lock()
		r.RevListStdin = append(r.RevListStdin, roots...)
		r.mu.Unlock()
		if err != nil {
			return err
		}
	}
	for _, a := range s.args {
		if !strings.HasPrefix(a, "-") {
			roots = append(roots, a)
		}
	}
	lines, ferr := r.w.RevList(roots, fl, cyc(s.plan.Order), cyc(s.plan.ObjOrder))
	var b bytes.Buffer
	for _, l := range lines {
		b.WriteString(l)
		b.WriteByte('\n')
	}
	if err := e.write(b.Bytes()); err != nil {
		return err
	}
	if ferr != nil {
		return ferr
	}
	return e.finish()
}

func (s *simStage) catFile(e *emitter, withBody bool) error {
	r := s.run
	if err := e.checkFaultAt(); err != nil {
		return err
	}
	buffered := hasArg(s.args, "--buffer")
	flush := s.plan.Flush
	if !buffered {
		flush = "each"
	}
	flushN := 0
	if strings.HasPrefix(flush, "n:") {
		flushN, _ = strconv.Atoi(flush[2:])
	}
	var pending []byte
	err := s.readLines(e, func(line string) error {
		r.mu.Lock()
		if withBody {
			r.BatchIn = append(r.BatchIn, line)
		} else {
			r.BatchCheckIn = append(r.BatchCheckIn, line)
		}
		r.mu.Unlock()
		o := r.w.Get(line)
		if o == nil || o.Missing {
			pending = append(pending, (line + " missing\n")...)
		} else {
			pending = append(pending, fmt.Sprintf("%s %s %d\n", o.ID, o.Kind, o.Size())...)
			if withBody {
				if o.DeclaredSize != nil {
					return &FatalError{"simulated git cannot stream a declared-size object: " + o.ID}
				}
				pending = append(pending, o.Body...)
				pending = append(pending, '\n')
			}
		}
		if flush == "each" || (flushN > 0 && len(pending) >= flushN) {
			data := pending
			pending = nil
			return e.write(data)
		}
		return nil
	})
	if err != nil {
		var de *dieError
		if errors.As(err, &de) && de.f.StdinLines >= 0 {
			// crash after k input lines: whatever was buffered is lost
			return err
		}
		return err
	}
	if err := e.write(pending); err != nil {
		return err
	}
	return e.finish()
}

func (s *simStage) forEachRef(e *emitter) error {
	r := s.run
	r.mu.Lock()
	r.ForEachRefRan++
	r.mu.Unlock()
	format := ""
	for _, a := range s.args {
		if strings.HasPrefix(a, "--format=") {
			format = a[len("--format="):]
		}
	}
	if format == "" {
		format = "%(objectname) %(objecttype)\t%(refname)"
	}
	refs := append([]Ref(nil), r.w.Refs...)
	for _, rp := range r.w.Extras.Replace {
		refs = append(refs, Ref{Name: "refs/replace/" + rp[0], OID: rp[1]})
	}
	sort.Slice(refs, func(i, j int) bool { return refs[i].Name < refs[j].Name })
	var b bytes.Buffer
	for _, ref := range refs {
		o := r.w.Get(ref.OID)
		if o == nil || o.Missing {
			if err := e.write(b.Bytes()); err != nil {
				return err
			}
			return &FatalError{fmt.Sprintf("fatal: missing object %s for %s", ref.OID, ref.Name)}
		}
		line := format
		line = strings.ReplaceAll(line, "%(objectname)", o.ID)
		line = strings.ReplaceAll(line, "%(objecttype)", o.Kind)
		line = strings.ReplaceAll(line, "%(objectsize)", strconv.FormatUint(o.Size(), 10))
		line = strings.ReplaceAll(line, "%(refname)", ref.Name)
		b.WriteString(line)
		b.WriteByte('\n')
	}
	if err := e.write(b.Bytes()); err != nil {
		return err
	}
	return e.finish()
}

// ---- genuine *exec.ExitError values ----

var (
	exitErrMu    sync.Mutex
	exitErrCache = map[[2]int]*exec.ExitError{}
)

// exitError returns a real *exec.ExitError for the given exit status or
// signal, obtained from a real (trivial) process so that WaitStatus and
// everything go-pipe inspects is authentic.
func exitError(status, sig int, stderr string) error {
	exitErrMu.Lock()
	defer exitErrMu.Unlock()
	key := [2]int{status, sig}
	proto, ok := exitErrCache[key]
	if !ok {
		var cmd *exec.Cmd
		if sig != 0 {
			cmd = exec.Command("/bin/sh", "-c", fmt.Sprintf("kill -%d $$", sig))
		} else {
			cmd = exec.Command("/bin/sh", "-c", fmt.Sprintf("exit %d", status))
		}
		err := cmd.Run()
		var ee *exec.ExitError
		if !errors.As(err, &ee) {
			panic(fmt.Sprintf("could not fabricate exit error %v: %v", key, err))
		}
		proto = ee
		exitErrCache[key] = proto
	}
	c := *proto
	c.Stderr = []byte(stderr)
	return &c
}
