package sim

// C05: counters saturate and never wrap; bombs are analysed in time
// proportional to the number of distinct objects.

import (
	"fmt"
	"math/big"
	"os"
	"sort"
	"strings"
	"time"

	"pgregory.net/rapid"
)

type c05Params struct {
	RefOpts []RefOpt `json:"refopts,omitempty"`
	Shape   string   `json:"shape"`
	Breadth int      `json:"breadth,omitempty"` // shape "scaling"
}

// scalingWorld: three levels of trees with `breadth` entries each, every
// entry of a level naming the same tree of the level below (a multi-edge
// bomb: 3 distinct trees, breadth^3 expanded files).
func scalingWorld(breadth int) *World {
	w := &World{Layout: "loose", Head: "ref: refs/heads/main"}
	blob := w.Add(NewObject(KBlob, []byte("bomb\n")))
	top := AddBomb(w, 3, breadth, blob, "")
	cs := CommitSpec{Tree: top.ID, Author: ident("A", 1500000000, "+0000"), Committer: ident("C", 1500000000, "+0000"), Message: "scaling\n"}
	co := w.Add(NewObject(KCommit, EncodeCommit(cs)))
	w.Refs = []Ref{{Name: "refs/heads/main", OID: co.ID}}
	return w
}

// judgeScaling: the real binary on the same bomb at breadth W and 2W. The
// number of distinct objects is the same and the number of tree entries
// doubles, so linear work at most doubles the time; the bound leaves room
// for a constant start-up cost; what is compared is processor time
// (user + system) of the process tree, which does not grow with the load of
// the machine the way wall time does.
func judgeScaling(c *Ctx, sc *Scenario, p *c05Params) *Violation {
	if os.Getenv("VERIF_GITSIZER_BIN") == "" {
		return nil
	}
	measure := func(breadth int) (time.Duration, *Violation) {
		w := scalingWorld(breadth)
		site, err := Materialise(w)
		if err != nil {
			return 0, nil
		}
		defer site.Close()
		best := time.Duration(0)
		for i := 0; i < 1; i++ {
			b := *sc
			b.World = w
			b.Plan = Plan{}
			rb := RunB(&b, site, BOpts{Timeout: 300 * time.Second, NoShim: true})
			c.Stats.CLIRuns++
			if rb.Hang {
				return 0, &Violation{"C05/not-linear-time", fmt.Sprintf("the real binary did not finish within 300 s on a bomb of 3 trees with %d entries each", breadth)}
			}
			if rb.Panic != "" || rb.Failed {
				return 0, &Violation{"C05/run-failed", fmt.Sprintf("breadth %d: %s %s %s", breadth, rb.Err, firstLines(rb.Panic, 6), firstBytes(rb.Stderr, 200))}
			}
			got, err := ParseJSONObject(rb.Stdout)
			if err != nil {
				return 0, &Violation{"C05/bad-json", err.Error()}
			}
			ex := w.Expect([]string{w.Refs[0].OID})
			if bad := ex.CompareV1(got, AllNumericFields); len(bad) > 0 {
				sort.Strings(bad)
				return 0, &Violation{"C05/mismatch:" + strings.SplitN(bad[0], ":", 2)[0], fmt.Sprintf("breadth %d: %s", breadth, strings.Join(bad, "; "))}
			}
			if d := time.Duration(rb.CPUNS); best == 0 || d < best {
				best = d
			}
		}
		return best, nil
	}
	t1, v := measure(p.Breadth)
	if v != nil {
		return v
	}
	t2, v := measure(2 * p.Breadth)
	if v != nil {
		return v
	}
	c.Stats.Probe("scaling-pairs-timed-on-the-real-binary")
	c.Stats.Extra["scaling_pairs_cpu_seconds_at_W"] += t1.Seconds()
	c.Stats.Extra["scaling_pairs_cpu_seconds_at_2W"] += t2.Seconds()
	c.Stats.Evaluations++
	c.Stats.Nontrivial[sc.Hash()] = true
	if t2 > t1*5/2+time.Second {
		return &Violation{"C05/not-linear-time", fmt.Sprintf("a bomb of 3 trees took %v of processor time with %d entries per tree and %v with %d: more than 2.5 x + 1 s for twice the entries", t1, p.Breadth, t2, 2*p.Breadth)}
	}
	return nil
}

func genC05(g G) *Scenario {
	if g.Rare(1, 25, "scaling") {
		b := g.Int(20000, 30000, "scalebreadth")
		return &Scenario{Format: 1, Property: "C05", Engine: "B", World: scalingWorld(16), Inv: Invocation{Args: []string{"--json", "--no-progress"}, Cwd: "top"},
			Params: c05Params{Shape: "scaling", Breadth: b}}
	}
	opts := DefaultGen
	opts.MaxBlobs, opts.MaxTrees, opts.MaxCommits, opts.MaxTags, opts.MaxRefs = 5, 5, 4, 2, 4
	opts.ExtraHeaders = false
	opts.NameStyle = 0
	shape := g.PickStr([]string{"huge-blobs", "bomb32", "bomb64", "huge-in-bomb", "sum", "ref-to-huge-blob", "linkbomb"}, "shape")
	if shape != "bomb32" && shape != "bomb64" {
		opts.HugeSizes = true
	}
	w := GenWorld(g, opts)
	addCommit := func(tree string, name string) {
		cs := CommitSpec{Tree: tree, Author: ident("A", 1500000000, "+0000"), Committer: ident("C", 1500000000, "+0000"), Message: name + "\n"}
		co := w.Add(NewObject(KCommit, EncodeCommit(cs)))
		if !refConflicts(map[string]bool{}, "refs/heads/"+name) {
			w.Refs = append(w.Refs, Ref{Name: "refs/heads/" + name, OID: co.ID})
		}
	}
	small := w.Add(NewObject(KBlob, []byte("bomb\n")))
	switch shape {
	case "bomb32", "bomb64", "huge-in-bomb":
		type bd struct{ b, d int }
		var cands []bd
		if shape == "bomb32" {
			cands = []bd{{2, 31}, {2, 32}, {2, 33}, {4, 16}, {4, 17}, {16, 8}, {256, 4}, {3, 20}, {3, 21}, {10, 10}, {10, 9}, {65536, 2}}
		} else {
			cands = []bd{{2, 63}, {2, 64}, {4, 32}, {16, 16}, {256, 8}, {10, 19}, {10, 20}, {3, 40}, {3, 41}}
		}
		if shape == "huge-in-bomb" {
			cands = []bd{{2, 20}, {2, 31}, {4, 16}, {2, 40}, {16, 8}}
		}
		c := cands[g.Pick(len(cands), "bombshape")]
		blob := small
		if shape == "huge-in-bomb" {
			sz := []uint64{1 << 32, 1<<32 - 1, 1 << 33, 1 << 44, 1 << 20}[g.Pick(5, "bombblobsize")]
			b := NewObject(KBlob, []byte("huge in bomb\n"))
			b.DeclaredSize = &sz
			blob = w.Add(b)
		}
		// direct entries (file, symlink, submodule) that sort after the
		// subtree entries, at the levels where the counters cross their capacity
		extras := map[int][]TreeEntry{}
		if g.Chance(2, 3, "bombextras") {
			ne := g.Int(1, 4, "nextras")
			for i := 0; i < ne; i++ {
				lvl := c.d - 1 - g.Int(0, min(3, c.d-1), "extralevel")
				var e TreeEntry
				switch g.Pick(3, "extrakind") {
				case 0:
					e = TreeEntry{Mode: 0o100644, Name: fmt.Sprintf("zfile%d", i), OID: blob.ID}
				case 1:
					e = TreeEntry{Mode: 0o120000, Name: fmt.Sprintf("zlink%d", i), OID: small.ID}
				default:
					e = TreeEntry{Mode: 0o160000, Name: fmt.Sprintf("zsub%d", i), OID: fakeOID(fmt.Sprint("bombsub", i))}
				}
				extras[lvl] = append(extras[lvl], e)
			}
		}
		levels := AddBombLevels(w, c.d, c.b, blob, "", extras)
		top := levels[len(levels)-1]
		// "taps": other roots that point at lower levels, so that the plan's
		// order of pending roots can deliver a subtree before the tree that
		// contains it (the subtree's size is then known when the parent is read)
		if g.Chance(2, 3, "bombtaps") {
			nt := g.Int(1, 3, "ntaps")
			for i := 0; i < nt; i++ {
				lvl := len(levels) - 2 - g.Int(0, min(3, len(levels)-2), "taplevel")
				if lvl < 0 {
					continue
				}
				if g.Bool("tapcommit") {
					addCommit(levels[lvl].ID, fmt.Sprintf("tap%d", i))
				} else if !refConflicts(refSet(w), fmt.Sprintf("refs/tags/tap%d", i)) {
					w.Refs = append(w.Refs, Ref{Name: fmt.Sprintf("refs/tags/tap%d", i), OID: levels[lvl].ID})
				}
			}
		}
		addCommit(top.ID, "bomb")
		if g.Bool("secondbomb") {
			top2 := AddBomb(w, g.Int(1, 5, "d2"), g.Int(1, 5, "b2"), small, "x")
			addCommit(top2.ID, "bomb2")
		}
	case "linkbomb":
		// a bomb whose leaves hold few files but several symlinks and
		// submodules: the symlink / submodule counters cross 2^32 while the
		// file and directory counters of the same checkout stay below 2^31
		nl, ns := g.Int(0, 6, "leaflinks"), g.Int(0, 6, "leafsubs")
		if nl+ns == 0 {
			nl = 5
		}
		es := []TreeEntry{{Mode: 0o100644, Name: "f", OID: small.ID}}
		for i := 0; i < nl; i++ {
			es = append(es, TreeEntry{Mode: 0o120000, Name: fmt.Sprintf("l%d", i), OID: small.ID})
		}
		for i := 0; i < ns; i++ {
			es = append(es, TreeEntry{Mode: 0o160000, Name: fmt.Sprintf("s%d", i), OID: fakeOID(fmt.Sprint("linkbomb", i))})
		}
		SortTreeEntries(es)
		cur := w.Add(NewObject(KTree, EncodeTree(es)))
		type bd struct{ b, d int }
		sh := []bd{{10, 9}, {10, 10}, {4, 15}, {4, 16}, {2, 30}, {2, 31}, {32, 6}}[g.Pick(7, "linkbombshape")]
		for d := 0; d < sh.d; d++ {
			var ds []TreeEntry
			for i := 0; i < sh.b; i++ {
				ds = append(ds, TreeEntry{Mode: 0o040000, Name: fmt.Sprintf("d%02d", i), OID: cur.ID})
			}
			SortTreeEntries(ds)
			cur = w.Add(NewObject(KTree, EncodeTree(ds)))
		}
		addCommit(cur.ID, "linkbomb")
	case "sum":
		// many declared sizes whose sum crosses 2^64
		var es []TreeEntry
		n := g.Int(2, 6, "nsum")
		for i := 0; i < n; i++ {
			sz := []uint64{1 << 63, 1<<63 - 1, 1<<64 - 1, 1 << 62, 1<<32 - 1, 1 << 32}[g.Pick(6, "sumsize")]
			b := NewObject(KBlob, []byte(fmt.Sprintf("sum %d\n", i)))
			b.DeclaredSize = &sz
			b = w.Add(b)
			es = append(es, TreeEntry{Mode: 0o100644, Name: fmt.Sprintf("s%d", i), OID: b.ID})
		}
		SortTreeEntries(es)
		t := w.Add(NewObject(KTree, EncodeTree(es)))
		addCommit(t.ID, "sum")
	case "ref-to-huge-blob":
		sz := []uint64{1 << 32, 1<<32 - 1, 1 << 33, 1<<64 - 1}[g.Pick(4, "refblobsize")]
		b := NewObject(KBlob, []byte("ref target\n"))
		b.DeclaredSize = &sz
		b = w.Add(b)
		w.Refs = append(w.Refs, Ref{Name: "refs/tags/hugeblob", OID: b.ID})
	}
	gm := NewGroupModel()
	refopts := GenRefOpts(g, w, gm, InvOpts{RefOpts: true, MaxRefOpts: 1})
	inv := BuildInvocation(g, []string{"--json"}, refopts, nil, []string{"top"}, w)
	return &Scenario{Format: 1, Property: "C05", Engine: "A", World: w, Inv: inv, Plan: GenPlan(g, false), Params: c05Params{RefOpts: refopts, Shape: shape}}
}

func judgeC05(c *Ctx, sc *Scenario) *Violation {
	var p c05Params
	decodeParams(sc, &p)
	if p.Shape == "scaling" {
		return judgeScaling(c, sc, &p)
	}
	w := sc.World
	site, err := Materialise(w)
	if err != nil {
		return nil
	}
	defer site.Close()
	gm, _, err := groupModelFor(site)
	if err != nil {
		return nil
	}
	sel := &Selection{Opts: p.RefOpts, HasRoots: false, GM: gm}
	roots := walkedRoots(w, sel, nil)
	ex := w.Expect(roots)
	// Bombs without merely declared sizes are first given to the real binary
	// under a real-time limit: an analysis that re-expands shared subtrees
	// (time proportional to the expanded size) would never return, and a
	// CPU-bound loop cannot be seen by the fake-time watchdog of engine A.
	declared := false
	for _, o := range w.Objects {
		if o.DeclaredSize != nil {
			declared = true
		}
	}
	if !declared && os.Getenv("VERIF_GITSIZER_BIN") != "" {
		b := *sc
		b.Plan = Plan{}
		b.Inv.Args = append([]string{"--no-progress"}, sc.Inv.Args...)
		rb := RunB(&b, site, BOpts{Timeout: 45 * time.Second})
		c.Stats.CLIRuns++
		c.Stats.Probe("bombs-timed-on-the-real-binary")
		if rb.Hang {
			return &Violation{"C05/not-linear-time", fmt.Sprintf("the real binary did not finish within 45 s on %d distinct objects (args %q)", len(ex.Closure), sc.Inv.Args)}
		}
		if rb.Panic != "" {
			return &Violation{"C05/panic", "engine B: " + firstLines(rb.Panic, 8)}
		}
		if !rb.Failed {
			if gb, err := ParseJSONObject(rb.Stdout); err == nil {
				if bad := ex.CompareV1(gb, AllNumericFields); len(bad) > 0 {
					sort.Strings(bad)
					return &Violation{"C05/mismatch:" + strings.SplitN(bad[0], ":", 2)[0], "real binary on real git: " + strings.Join(bad, "; ")}
				}
			}
		}
	}
	t0 := time.Now()
	res := RunA(c.T, c.H, sc, site)
	wall := time.Since(t0)
	c.Stats.AddResult(res)
	c.Stats.Evaluations++
	if res.Panic != "" {
		return &Violation{"C05/panic", firstLines(res.Panic, 8)}
	}
	if res.Hang {
		return &Violation{"C05/hang", ""}
	}
	if res.Failed {
		return &Violation{"C05/run-failed", res.Err}
	}
	got, err := ParseJSONObject(res.Stdout)
	if err != nil {
		return &Violation{"C05/bad-json", err.Error()}
	}
	if bad := ex.CompareV1(got, AllNumericFields); len(bad) > 0 {
		sort.Strings(bad)
		// say what the true values are
		var extra []string
		for _, b := range bad {
			k := strings.SplitN(b, ":", 2)[0]
			if ft, ok := fieldTrue[k]; ok {
				extra = append(extra, fmt.Sprintf("%s true=%s", k, ex.True[ft.True].String()))
			}
		}
		return &Violation{"C05/mismatch:" + strings.SplitN(bad[0], ":", 2)[0], strings.Join(bad, "; ") + " | " + strings.Join(extra, "; ")}
	}
	// work at the simulated boundary: each distinct non-blob object requested exactly once
	nonblob := 0
	for _, k := range ex.Closure {
		if k != KBlob {
			nonblob++
		}
	}
	if len(res.Run.BatchIn) != nonblob {
		return &Violation{"C05/work-not-linear", fmt.Sprintf("%d objects requested from cat-file --batch, %d distinct non-blob objects reachable", len(res.Run.BatchIn), nonblob)}
	}
	if wall > 120*time.Second {
		return &Violation{"C05/too-slow", fmt.Sprintf("%v for %d distinct objects", wall, len(ex.Closure))}
	}
	// saturated values in the table and in JSON v2
	saturated := map[string]bool{}
	for _, m := range Metrics {
		if m.Witness == "" {
			continue
		}
		tv := ex.True[m.Witness]
		if tv != nil && tv.Cmp(new(big.Int).SetUint64(m.Capacity())) >= 0 {
			saturated[m.Symbol] = true
		}
	}
	if len(saturated) > 0 {
		c.Stats.Nontrivial[sc.Hash()] = true
		c.Stats.Probe("worlds-with-a-saturated-counter")
		for _, thr := range []string{"--threshold=0", "--critical", "--threshold=1e300"} {
			t := *sc
			t.Inv.Args = append([]string{thr, "--names=none"}, sc.Inv.Args[1:]...) // drop --json
			rt := RunA(c.T, c.H, &t, site)
			c.Stats.AddResult(rt)
			if rt.Failed || rt.Panic != "" {
				return &Violation{"C05/table-run-failed", rt.Err + rt.Panic}
			}
			tb, err := ParseTable(rt.Stdout)
			if err != nil {
				return &Violation{"C05/table", err.Error()}
			}
			rows := map[string]TableRow{}
			for _, r := range tb.Rows {
				if r.IsItem {
					rows[tb.Key(r)] = r
				}
			}
			for _, m := range Metrics {
				if !saturated[m.Symbol] {
					continue
				}
				r, ok := rows[m.Row]
				if !ok {
					return &Violation{"C05/saturated-row-hidden", fmt.Sprintf("%s is saturated but not shown with %s", m.Row, thr)}
				}
				if r.Value != "∞" {
					return &Violation{"C05/saturated-not-infinity", fmt.Sprintf("%s shows %q", m.Row, r.Value)}
				}
				if r.Concern != strings.Repeat("!", 30) {
					return &Violation{"C05/saturated-concern", fmt.Sprintf("%s concern %q", m.Row, r.Concern)}
				}
			}
		}
		t := *sc
		t.Inv.Args = append([]string{"--json", "--json-version=2"}, sc.Inv.Args[1:]...)
		r2 := RunA(c.T, c.H, &t, site)
		c.Stats.AddResult(r2)
		if r2.Failed || r2.Panic != "" {
			return &Violation{"C05/v2-run-failed", r2.Err + r2.Panic}
		}
		m2, err := ParseJSONObject(r2.Stdout)
		if err != nil {
			return &Violation{"C05/bad-json", err.Error()}
		}
		for _, m := range Metrics {
			if !saturated[m.Symbol] {
				continue
			}
			it, _ := m2[m.Symbol].(map[string]interface{})
			if v, ok := jsonUint(it["value"]); !ok || v != m.Capacity() {
				return &Violation{"C05/saturated-json-v2", fmt.Sprintf("%s value %v, capacity %d", m.Symbol, it["value"], m.Capacity())}
			}
		}
	}
	c.Stats.Sample(map[string]interface{}{"shape": p.Shape, "args": sc.Inv.Args, "objects": len(ex.Closure), "saturated": len(saturated), "expected": ex.JSONv1Fields()})
	return nil
}

func init() {
	Register(&Prop{ID: "C05", Components: componentsA,
		// every run starts with one scaling pair, so that the linear-time part
		// never depends on the draw
		Prefix: func(c *Ctx) (*Scenario, *Violation) {
			sc := &Scenario{Format: 1, Property: "C05", Engine: "B", World: scalingWorld(16), Inv: Invocation{Args: []string{"--json", "--no-progress"}, Cwd: "top"},
				Params: c05Params{Shape: "scaling", Breadth: 24000}}
			return sc, judgeC05(c, sc)
		},
		Check: func(c *Ctx, rt *rapid.T) {
			sc := genC05(G{rt})
			if v := judgeC05(c, sc); v != nil {
				c.Fail(rt, sc, v.Class, v.Detail)
			}
		},
		Replay: judgeC05,
		Rule:   "worlds that only a simulated disk can supply: declared blob sizes {2^32-2..2^32+1, 2^33, 2^63, 2^64-1, random around 2^32}, alone, summed across 2^64, inside bombs (breadth^depth around 2^32 and 2^64), references pointing straight at huge blobs; all 21 numeric JSON v1 fields compared with min(true value, capacity) from the big-integer model; saturated metrics must show the infinity sign and 30 '!' at thresholds 0, 30 and 1e300 and the capacity in JSON v2; work observed at the simulated boundary (objects requested from cat-file --batch = distinct non-blob objects), a 120 s wall ceiling, and (1 evaluation in 25) a scaling pair on the real binary: the same 3-tree bomb with W and 2W entries per tree (W 20 000-30 000) must not take more than 2.5 x + 1 s of processor time (user + system, load-independent) for twice the entries (an expansion proportional to the checkout size would not finish at all). non-trivial: at least one counter saturates; distinct by scenario hash. Not decided here: the saturating-arithmetic law for all operand pairs (a pure function; only the pairs the worlds produce are exercised)"})
}
