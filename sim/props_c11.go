package sim

// C11: table, JSON v1 and JSON v2 agree; the threshold filters
// monotonically.

import (
	"fmt"
	"math"
	"math/big"
	"sort"
	"strconv"
	"strings"

	"pgregory.net/rapid"
)

type c11Params struct {
	Thresholds []string `json:"thresholds"` // decimal strings; "v" = --verbose, "c" = --critical, "n" = --no-verbose, "" = default
	Names      string   `json:"names"`
}

var prefixesMetric = []struct {
	name string
	mult uint64
}{{"", 1}, {"k", 1e3}, {"M", 1e6}, {"G", 1e9}, {"T", 1e12}, {"P", 1e15}}
var prefixesBinary = []struct {
	name string
	mult uint64
}{{"", 1}, {"Ki", 1 << 10}, {"Mi", 1 << 20}, {"Gi", 1 << 30}, {"Ti", 1 << 40}, {"Pi", 1 << 50}}

// checkNumeral verifies that (numeral, unit) is a correct human-readable
// rendering of n: largest prefix not exceeding n, exact below the first
// prefix, >= 3 significant digits with a prefix, at most half a unit in the
// last displayed digit away from the true value.
func checkNumeral(n uint64, binary bool, baseUnit, numeral, unit string) string {
	pf := prefixesMetric
	if binary {
		pf = prefixesBinary
	}
	best := pf[0]
	for _, p := range pf {
		if n >= p.mult {
			best = p
		}
	}
	if unit != best.name+baseUnit {
		return fmt.Sprintf("unit %q, expected %q for %d", unit, best.name+baseUnit, n)
	}
	if best.mult == 1 {
		if numeral != strconv.FormatUint(n, 10) {
			return fmt.Sprintf("numeral %q, expected the exact value %d", numeral, n)
		}
		return ""
	}
	r, ok := new(big.Rat).SetString(numeral)
	if !ok {
		return fmt.Sprintf("numeral %q is not a decimal number", numeral)
	}
	decimals := 0
	if i := strings.IndexByte(numeral, '.'); i >= 0 {
		decimals = len(numeral) - i - 1
	}
	digits := len(strings.ReplaceAll(strings.TrimLeft(numeral, "0"), ".", ""))
	if digits < 3 {
		return fmt.Sprintf("numeral %q has fewer than three significant digits", numeral)
	}
	truth := new(big.Rat).SetFrac(new(big.Int).SetUint64(n), new(big.Int).SetUint64(best.mult))
	diff := new(big.Rat).Sub(r, truth)
	diff.Abs(diff)
	half := new(big.Rat).SetFrac(big.NewInt(1), new(big.Int).Mul(big.NewInt(2), new(big.Int).Exp(big.NewInt(10), big.NewInt(int64(decimals)), nil)))
	// float64 conversion of very large values may add up to 2^-52 relative error
	slack := new(big.Rat).Mul(truth, new(big.Rat).SetFrac(big.NewInt(1), new(big.Int).Lsh(big.NewInt(1), 50)))
	half.Add(half, slack)
	if diff.Cmp(half) > 0 {
		return fmt.Sprintf("numeral %q %s is more than half a unit in the last digit away from %d", numeral, unit, n)
	}
	return ""
}

func thresholdArg(t string) []string {
	switch t {
	case "":
		return nil
	case "v":
		return []string{"--verbose"}
	case "-v":
		return []string{"-v"}
	case "c":
		return []string{"--critical"}
	case "n":
		return []string{"--no-verbose"}
	}
	return []string{"--threshold=" + t}
}

// finiteDecimal returns the exact decimal expansion of r if it is finite
// and has at most 15 significant digits.
func finiteDecimal(r *big.Rat) (string, bool) {
	den := new(big.Int).Set(r.Denom())
	for _, f := range []int64{2, 5} {
		bf, m := big.NewInt(f), new(big.Int)
		for {
			q, rem := new(big.Int).QuoRem(den, bf, m)
			if rem.Sign() != 0 {
				break
			}
			den = q
		}
	}
	if den.Cmp(big.NewInt(1)) != 0 {
		return "", false
	}
	s := r.FloatString(40)
	s = strings.TrimRight(s, "0")
	s = strings.TrimSuffix(s, ".")
	if s == "" {
		s = "0"
	}
	if back, ok := new(big.Rat).SetString(s); !ok || back.Cmp(r) != 0 || sigDigits(s) > 15 {
		return "", false
	}
	return s, true
}

// sigDigits counts the significant decimal digits of a plain decimal
// numeral (100 for anything else, e.g. an exponent form).
func sigDigits(t string) int {
	t = strings.TrimPrefix(t, "-")
	if t == "" || strings.Trim(t, "0123456789.") != "" {
		return 100
	}
	d := strings.ReplaceAll(t, ".", "")
	d = strings.TrimLeft(d, "0")
	if !strings.Contains(t, ".") {
		// trailing zeros of an integer are not significant for float64 exactness purposes below 2^53
		d = strings.TrimRight(d, "0")
	}
	return len(d)
}

func thresholdValue(t string) float64 {
	switch t {
	case "", "n":
		return 1
	case "v", "-v":
		return 0
	case "c":
		return 30
	}
	f, _ := strconv.ParseFloat(t, 64)
	return f
}

type v2item struct {
	value uint64
	ref   float64
	level float64
	unit  string
	pfx   string
}

func judgeC11(c *Ctx, sc *Scenario) *Violation {
	var p c11Params
	decodeParams(sc, &p)
	w := sc.World
	site, err := Materialise(w)
	if err != nil {
		return nil
	}
	defer site.Close()
	c.Stats.Evaluations++
	run := func(args []string) (*Result, *Violation) {
		v := *sc
		v.Inv.Args = append(append([]string(nil), args...), sc.Inv.Args...)
		res := RunA(c.T, c.H, &v, site)
		c.Stats.AddResult(res)
		if res.Panic != "" {
			return nil, &Violation{"C11/panic", fmt.Sprintf("%v: %s", args, firstLines(res.Panic, 8))}
		}
		if res.Hang {
			return nil, &Violation{"C11/hang", fmt.Sprint(args)}
		}
		if res.Failed {
			return nil, &Violation{"C11/run-failed", fmt.Sprintf("%v: %s", args, res.Err)}
		}
		return res, nil
	}
	names := "--names=" + p.Names
	r1, v := run([]string{"--json", names})
	if v != nil {
		return v
	}
	j1, err := ParseJSONObject(r1.Stdout)
	if err != nil {
		return &Violation{"C11/bad-json", err.Error()}
	}
	r2, v := run([]string{"--json", "--json-version=2", names})
	if v != nil {
		return v
	}
	j2, err := ParseJSONObject(r2.Stdout)
	if err != nil {
		return &Violation{"C11/bad-json", err.Error()}
	}
	items := map[string]v2item{} // by table row key
	rowOrder := []string{}
	bySymbol := map[string]Metric{}
	for _, m := range Metrics {
		bySymbol[m.Symbol] = m
	}
	getItem := func(sym string) (v2item, *Violation) {
		it, ok := j2[sym].(map[string]interface{})
		if !ok {
			return v2item{}, &Violation{"C11/v2-item-missing", sym}
		}
		val, ok := jsonUint(it["value"])
		if !ok {
			return v2item{}, &Violation{"C11/v2-value", fmt.Sprintf("%s: %v", sym, it["value"])}
		}
		ref, _ := strconv.ParseFloat(fmt.Sprint(it["referenceValue"]), 64)
		lvl, _ := strconv.ParseFloat(fmt.Sprint(it["levelOfConcern"]), 64)
		unit, _ := it["unit"].(string)
		pfx, _ := it["prefixes"].(string)
		if ref <= 0 {
			return v2item{}, &Violation{"C11/v2-reference", fmt.Sprintf("%s: referenceValue %v", sym, it["referenceValue"])}
		}
		want := float64(val) / ref
		if math.Abs(lvl-want) > 1e-12*math.Max(1, math.Abs(want)) {
			return v2item{}, &Violation{"C11/v2-level-of-concern", fmt.Sprintf("%s: levelOfConcern %v, value/referenceValue = %v", sym, lvl, want)}
		}
		return v2item{val, ref, lvl, unit, pfx}, nil
	}
	for _, m := range Metrics {
		it, v := getItem(m.Symbol)
		if v != nil {
			return v
		}
		v1, ok := jsonUint(j1[m.V1])
		if !ok || v1 != it.value {
			return &Violation{"C11/v1-v2-disagree", fmt.Sprintf("%s: JSON v1 %v, JSON v2 %d", m.V1, j1[m.V1], it.value)}
		}
		if (it.pfx == "binary") != m.Binary {
			return &Violation{"C11/v2-prefixes", fmt.Sprintf("%s: prefixes %q", m.Symbol, it.pfx)}
		}
		items[m.Row] = it
		rowOrder = append(rowOrder, m.Row)
	}
	// reference-group rows: matched by position under References
	var groupItems []v2item
	var groupSyms []string
	for k := range j2 {
		if strings.HasPrefix(k, "refgroup.") {
			groupSyms = append(groupSyms, k)
		}
	}
	sort.Strings(groupSyms)
	groupByName := map[string][]v2item{}
	for _, k := range groupSyms {
		it, v := getItem(k)
		if v != nil {
			return v
		}
		groupItems = append(groupItems, it)
		_ = groupItems
		desc := j2[k].(map[string]interface{})
		_ = desc
		groupByName[k] = append(groupByName[k], it)
	}
	// thresholds ascending for the monotonicity check
	type shown struct {
		thr  float64
		rows map[string]bool
		arg  string
	}
	var all []shown
	// "L<k>": a threshold exactly at the level of concern of the k-th metric
	// of this very scan, written as the exact finite decimal of
	// value/reference when there is one of at most 15 significant digits
	// (else as JSON v2 prints the level)
	var ths []string
	for _, t := range p.Thresholds {
		if strings.HasPrefix(t, "L") && len(rowOrder) > 0 {
			k, _ := strconv.Atoi(t[1:])
			it := items[rowOrder[k%len(rowOrder)]]
			ratio := new(big.Rat).SetFrac(new(big.Int).SetUint64(it.value), big.NewInt(1))
			ratio.Quo(ratio, new(big.Rat).SetFloat64(it.ref))
			if d, ok := finiteDecimal(ratio); ok {
				t = d
				c.Stats.Probe("threshold-at-exact-decimal-level-of-a-metric")
			} else {
				f, _ := ratio.Float64()
				t = strconv.FormatFloat(f, 'g', -1, 64)
			}
		}
		ths = append(ths, t)
	}
	for _, t := range ths {
		thr := thresholdValue(t)
		rt, v := run(append(thresholdArg(t), names))
		if v != nil {
			return v
		}
		tb, err := ParseTable(rt.Stdout)
		if err != nil {
			return &Violation{"C11/table", fmt.Sprintf("threshold %q: %v\n%s", t, err, firstBytes(rt.Stdout, 800))}
		}
		rows := map[string]bool{}
		metricRows := 0
		for _, r := range tb.Rows {
			if !r.IsItem {
				continue
			}
			key := tb.Key(r)
			it, ok := items[key]
			if !ok {
				// a reference-group row (indented under References)
				if r.Section == "Overall repository size" && len(r.Path) >= 1 && r.Path[0] == "References" {
					rows["group:"+r.RawName+fmt.Sprint(r.Depth)] = true
					continue
				}
				return &Violation{"C11/unknown-row", fmt.Sprintf("threshold %q: row %q", t, key)}
			}
			metricRows++
			rows[key] = true
			m := metricByRow(key)
			sat := it.value == m.Capacity()
			if sat {
				if r.Value != "∞" || r.Concern != strings.Repeat("!", 30) {
					return &Violation{"C11/saturated-rendering", fmt.Sprintf("%s: %q %q", key, r.Value, r.Concern)}
				}
				continue
			}
			baseUnit := ""
			if m.Binary {
				baseUnit = "B"
			}
			if msg := checkNumeral(it.value, m.Binary, baseUnit, r.Value, r.Unit); msg != "" {
				return &Violation{"C11/numeral", fmt.Sprintf("%s (JSON value %d): %s", key, it.value, msg)}
			}
			ratio := new(big.Rat).SetFrac(new(big.Int).SetUint64(it.value), big.NewInt(1))
			ratio.Quo(ratio, new(big.Rat).SetFloat64(it.ref))
			fl, _ := ratio.Float64()
			k := int(math.Floor(fl))
			wantStars := ""
			switch {
			case ratio.Cmp(big.NewRat(31, 1)) >= 0:
				wantStars = strings.Repeat("!", 30)
			case ratio.Cmp(big.NewRat(30, 1)) > 0:
				// strictly between 30 and 31: "30 asterisks" and "beyond 30" both describe it
				if r.Concern != strings.Repeat("*", 30) && r.Concern != strings.Repeat("!", 30) {
					return &Violation{"C11/concern", fmt.Sprintf("%s: ratio %v, concern %q", key, fl, r.Concern)}
				}
				continue
			default:
				if k < 0 {
					k = 0
				}
				wantStars = strings.Repeat("*", k)
			}
			if r.Concern != wantStars {
				return &Violation{"C11/concern", fmt.Sprintf("%s: value %d / reference %v = %v, concern %q, expected %q", key, it.value, it.ref, fl, r.Concern, wantStars)}
			}
		}
		// visibility of every metric
		for _, key := range rowOrder {
			it := items[key]
			m := metricByRow(key)
			sat := it.value == m.Capacity()
			ratio := new(big.Rat).SetFrac(new(big.Int).SetUint64(it.value), big.NewInt(1))
			ratio.Quo(ratio, new(big.Rat).SetFloat64(it.ref))
			var want bool
			if sat {
				want = true
			} else if math.IsInf(thr, 0) || math.IsNaN(thr) {
				continue
			} else {
				tr := new(big.Rat).SetFloat64(thr)
				cmp := ratio.Cmp(tr)
				// too close to call in floating point? (the implementation divides in float64)
				d := new(big.Rat).Sub(ratio, tr)
				d.Abs(d)
				scale := new(big.Rat).Abs(tr)
				if scale.Cmp(big.NewRat(1, 1)) < 0 {
					scale = big.NewRat(1, 1)
				}
				eps := new(big.Rat).Mul(scale, big.NewRat(1, 1_000_000_000))
				if td, ok := new(big.Rat).SetString(t); ok && ratio.Cmp(td) == 0 && sigDigits(t) <= 15 && it.value < 1<<53 {
					// the threshold as typed is exactly value/reference and
					// short enough to survive float64 unchanged: the
					// correctly rounded quotient equals the parsed
					// threshold, so this is decidable - the row is shown
					c.Stats.Probe("value-exactly-at-fractional-threshold")
					cmp = 0
				} else if cmp != 0 && d.Cmp(eps) < 0 {
					c.Stats.Probe("threshold-too-close-to-call (row skipped)")
					continue
				}
				if cmp == 0 {
					c.Stats.Probe("value-exactly-at-threshold")
				}
				want = cmp >= 0
			}
			if rows[key] != want {
				fl, _ := ratio.Float64()
				return &Violation{"C11/row-visibility", fmt.Sprintf("threshold %q (=%v): %s with value %d (ratio %v, saturated=%v) shown=%v, expected %v", t, thr, key, it.value, fl, sat, rows[key], want)}
			}
		}
		if len(rows) == 0 != tb.NoProblems {
			return &Violation{"C11/no-problems-line", fmt.Sprintf("threshold %q: %d rows, no-problems line %v", t, len(rows), tb.NoProblems)}
		}
		if thr <= 0 && metricRows != len(Metrics) {
			return &Violation{"C11/verbose-incomplete", fmt.Sprintf("threshold %q shows %d of %d metrics", t, metricRows, len(Metrics))}
		}
		all = append(all, shown{thr, rows, t})
	}
	sort.SliceStable(all, func(i, j int) bool { return all[i].thr < all[j].thr })
	for i := 1; i < len(all); i++ {
		if all[i].thr == all[i-1].thr {
			// equal thresholds spelled differently: identical row sets
			if d := setDiff(all[i-1].rows, all[i].rows); d != "" {
				return &Violation{"C11/equivalent-thresholds-differ", fmt.Sprintf("%q vs %q: %s", all[i-1].arg, all[i].arg, d)}
			}
			continue
		}
		for k := range all[i].rows {
			if !all[i-1].rows[k] {
				return &Violation{"C11/threshold-not-monotone", fmt.Sprintf("row %q shown at threshold %v (%q) but not at the lower threshold %v (%q)", k, all[i].thr, all[i].arg, all[i-1].thr, all[i-1].arg)}
			}
		}
	}
	c.Stats.Nontrivial[sc.Hash()] = true
	c.Stats.Sample(map[string]interface{}{"thresholds": p.Thresholds, "names": p.Names, "objects": len(w.Objects)})
	return nil
}

func metricByRow(key string) Metric {
	for _, m := range Metrics {
		if m.Row == key {
			return m
		}
	}
	return Metric{}
}

func checkC11(c *Ctx, rt *rapid.T) {
	g := G{rt}
	opts := DefaultGen
	opts.NameStyle = 0
	opts.ExtraHeaders = false
	w := GenWorld(g, opts)
	// steer measurements onto k * reference boundaries with the simulated disk
	small := w.Add(NewObject(KBlob, []byte("c11\n")))
	var es []TreeEntry
	if g.Chance(2, 3, "steerblob") {
		k := uint64(g.Int(0, 32, "kblob"))
		sz := k*10_000_000 + uint64(g.PickInt([]int{0, 0, 1, -1, 0}, "blobeps")+1) - 1
		if k == 0 {
			sz = uint64(g.Int(0, 3, "tiny"))
		}
		b := NewObject(KBlob, []byte("steer blob\n"))
		b.DeclaredSize = &sz
		b = w.Add(b)
		es = append(es, TreeEntry{Mode: 0o100644, Name: "big", OID: b.ID})
	}
	if g.Chance(1, 4, "saturate") {
		// a saturated metric must be shown whatever the threshold is
		sz := []uint64{1<<32 - 1, 1 << 32, 1 << 40, 1<<53 + 1, 1<<62 + 1, 1<<64 - 1}[g.Pick(6, "satsize")]
		b := NewObject(KBlob, []byte("saturating blob\n"))
		b.DeclaredSize = &sz
		b = w.Add(b)
		es = append(es, TreeEntry{Mode: 0o100644, Name: "sat", OID: b.ID})
	}
	if g.Chance(1, 2, "steerentries") {
		n := g.PickInt([]int{999, 1000, 1001, 2000, 500}, "nentries")
		for i := 0; i < n; i++ {
			es = append(es, TreeEntry{Mode: 0o100644, Name: fmt.Sprintf("e%05d", i), OID: small.ID})
		}
	}
	if g.Chance(1, 2, "steerpath") {
		l := g.PickInt([]int{99, 100, 101, 200, 3100}, "pathlen")
		es = append(es, TreeEntry{Mode: 0o100644, Name: strings.Repeat("p", l), OID: small.ID})
	}
	if g.Chance(1, 3, "steerchk") {
		k := uint64(g.Int(1, 31, "kchk"))
		sz := k * 1_000_000_000
		b := NewObject(KBlob, []byte("steer checkout\n"))
		b.DeclaredSize = &sz
		b = w.Add(b)
		es = append(es, TreeEntry{Mode: 0o100644, Name: "chk", OID: b.ID})
	}
	if len(es) > 0 {
		SortTreeEntries(es)
		t := w.Add(NewObject(KTree, EncodeTree(es)))
		var parents []string
		if g.Chance(1, 2, "steerparents") {
			np := g.PickInt([]int{9, 10, 11, 20, 30}, "nparents")
			for i := 0; i < np; i++ {
				cs := CommitSpec{Tree: EmptyTreeID, Author: ident("A", int64(1400000000+i), "+0000"), Committer: ident("C", int64(1400000000+i), "+0000"), Message: fmt.Sprintf("p%d\n", i)}
				parents = append(parents, w.Add(NewObject(KCommit, EncodeCommit(cs))).ID)
			}
		}
		cs := CommitSpec{Tree: t.ID, Parents: parents, Author: ident("A", 1500000000, "+0000"), Committer: ident("C", 1500000000, "+0000"), Message: "steer\n"}
		co := w.Add(NewObject(KCommit, EncodeCommit(cs)))
		if !refConflicts(refSet(w), "refs/heads/steer") {
			w.Refs = append(w.Refs, Ref{Name: "refs/heads/steer", OID: co.ID})
		}
	}
	p := c11Params{Names: g.PickStr([]string{"full", "hash", "none"}, "names")}
	pool := []string{"v", "-v", "", "n", "c", "0", "1", "30", "0.5", "1.5", "7.25", "-1", "1e308", "2", "10", "29.999", "30.001", "0.001", "31", "1e-300", "430", "500", "1e6", "1e12"}
	n := g.Int(3, 6, "nthresholds")
	for i := 0; i < n; i++ {
		if g.Chance(1, 4, "kthr") {
			p.Thresholds = append(p.Thresholds, strconv.Itoa(g.Int(0, 32, "kthreshold")))
		} else if g.Chance(1, 4, "levelthr") {
			p.Thresholds = append(p.Thresholds, fmt.Sprintf("L%d", g.Int(0, 21, "levelof")))
		} else {
			p.Thresholds = append(p.Thresholds, pool[g.Pick(len(pool), "thr")])
		}
	}
	sc := &Scenario{Format: 1, Property: "C11", Engine: "A", World: w, Inv: Invocation{Cwd: "top"}, Plan: Plan{}, Params: p}
	if v := judgeC11(c, sc); v != nil {
		c.Fail(rt, sc, v.Class, v.Detail)
	}
}

func refSet(w *World) map[string]bool {
	m := map[string]bool{}
	for _, r := range w.Refs {
		m[r.Name] = true
	}
	return m
}

func init() {
	Register(&Prop{ID: "C11", Check: checkC11, Replay: judgeC11, Components: componentsA,
		Rule: "per generated world (the simulated disk steers measurements onto k*reference boundaries: declared blob sizes k*10^7 (+-1), 2^32-1, 2^32, 2^40, 2^53+1, 2^62+1, 2^64-1, k*10^9 in one checkout, 999/1000/1001/2000 tree entries, path lengths 99/100/101, 9/10/11/20/30 parents): JSON v1, JSON v2 and the table at 3-6 thresholds from {-v, --verbose, default, --no-verbose, --critical, 0, 1, 30, k, fractional, negative, 1e308, 1e-300}; JSON v2 value = JSON v1 value and levelOfConcern = value/referenceValue; a row is shown iff value/referenceValue >= threshold (exact rationals; thresholds also placed exactly at the finite-decimal level of concern of a metric of the same scan, e.g. 0.07 for 7/100, where the answer is decidable: shown; other comparisons within 1e-9 relative are skipped and counted) or saturated; numerals within half a unit of the last displayed digit of the JSON value with the right prefix; concern marker floor(ratio) asterisks, '!' from 31 (either for ratios strictly between 30 and 31); raising the threshold only removes rows; equal thresholds spelled differently show the same rows; threshold <= 0 shows all 22 metrics; no row <=> the single no-problems line. Pure function of the measurement vector: the simulator contributes worlds and multi-run relations only. distinct by scenario hash"})
}
