package sim

// C18: progress goes to stderr only and reports the exact work done.

import (
	"bytes"
	"fmt"
	"regexp"
	"strconv"
	"strings"

	"pgregory.net/rapid"
)

type c18Params struct {
	Mode    string        `json:"mode"` // meter | cli
	Script  *MeterScript  `json:"script,omitempty"`
	Scripts []MeterScript `json:"scripts,omitempty"`
	Scheds  [][]int       `json:"scheds,omitempty"`
	RefOpts []RefOpt      `json:"refopts,omitempty"`
}

var progressRe = regexp.MustCompile(`^(Processing blobs|Processing trees|Processing commits|Matching commits to trees|Processing annotated tags|Processing references): (\d+)   (.?)                    $`)

var phaseOrder = []string{"Processing blobs", "Processing trees", "Processing commits", "Matching commits to trees", "Processing annotated tags", "Processing references"}

// checkProgressStream validates the progress bytes of a CLI run and
// returns the final count of each phase.
func checkProgressStream(stderr []byte) (map[string]uint64, int, *Violation) {
	finals := map[string]uint64{}
	frames := 0
	last := map[string]uint64{}
	rest := stderr
	phaseIdx := -1
	for len(rest) > 0 {
		i := bytes.IndexAny(rest, "\r\n")
		if i < 0 {
			return nil, 0, &Violation{"C18/unterminated-progress", fmt.Sprintf("%q", firstBytes(rest, 100))}
		}
		frame, term := rest[:i], rest[i]
		rest = rest[i+1:]
		m := progressRe.FindSubmatch(frame)
		if m == nil {
			return nil, 0, &Violation{"C18/unexpected-stderr", fmt.Sprintf("not a progress frame: %q", firstBytes(frame, 200))}
		}
		name := string(m[1])
		n, _ := strconv.ParseUint(string(m[2]), 10, 64)
		if _, done := finals[name]; done {
			return nil, 0, &Violation{"C18/frame-after-final-line", fmt.Sprintf("%q after the final line of that phase", frame)}
		}
		idx := -1
		for k, p := range phaseOrder {
			if p == name {
				idx = k
			}
		}
		if idx < phaseIdx {
			return nil, 0, &Violation{"C18/phase-order", fmt.Sprintf("frame of %q after phase %q", name, phaseOrder[phaseIdx])}
		}
		phaseIdx = idx
		if n < last[name] {
			return nil, 0, &Violation{"C18/count-decreased", fmt.Sprintf("%s: %d after %d", name, n, last[name])}
		}
		last[name] = n
		if term == '\n' {
			finals[name] = n
		} else {
			frames++
		}
	}
	return finals, frames, nil
}

func judgeC18(c *Ctx, sc *Scenario) *Violation {
	var p c18Params
	decodeParams(sc, &p)
	if p.Mode == "meter" {
		scripts, scheds := p.Scripts, p.Scheds
		if p.Script != nil {
			scripts, scheds = []MeterScript{*p.Script}, [][]int{sc.Plan.Sched}
		}
		rs := RunMeterSims(c.T, c.H.Meter, scripts, scheds)
		c.Stats.Evaluations++
		for i, r := range rs {
			c.Stats.Extra["meter_schedules"]++
			c.Stats.Extra["meter_frames"] += float64(r.Frames)
			c.Stats.Extra["stale_ticker_wakeups"] += float64(r.Stale)
			c.Stats.Extra["worker_parked_inside_Start_or_Done"] += float64(r.MidOp)
			if len(r.Events) > 0 {
				c.Stats.SimNS += r.Events[len(r.Events)-1].TNS
			}
			sig := sigOf(r.Events)
			c.Stats.Sigs[sig] = true
			if r.Frames > 0 && r.Stale > 0 {
				c.Stats.Nontrivial["m"+sig] = true
			}
			if r.V != nil {
				// narrow the scenario to the failing pair so that the replay file is minimal
				sc.Params = c18Params{Mode: "meter", Script: &scripts[i]}
				sc.Plan.Sched = scheds[i]
				sc.Log = r.Events
				return r.V
			}
		}
		if len(rs) > 0 {
			c.Stats.Sample(map[string]interface{}{"script": scripts[0], "sched": scheds[0], "frames": rs[0].Frames, "events": len(rs[0].Events)})
		}
		return nil
	}
	// whole system
	w := sc.World
	site, err := Materialise(w)
	if err != nil {
		return nil
	}
	defer site.Close()
	if !verifyRoots(c, site, sc.Inv.Roots) {
		return nil
	}
	gm, _, err := groupModelFor(site)
	if err != nil {
		return nil
	}
	sel := &Selection{Opts: p.RefOpts, HasRoots: len(sc.Inv.Roots) > 0, GM: gm}
	roots := walkedRoots(w, sel, sc.Inv.Roots)
	ex := w.Expect(roots)

	res := RunA(c.T, c.H, sc, site)
	c.Stats.AddResult(res)
	c.Stats.Evaluations++
	if res.Panic != "" {
		return &Violation{"C18/panic", firstLines(res.Panic, 8)}
	}
	if res.Hang {
		return &Violation{"C18/hang", ""}
	}
	faulted := false
	for _, pp := range sc.Plan.Peers {
		if pp != nil && len(pp.Faults) > 0 {
			faulted = true
		}
	}
	if faulted {
		// a scan that fails: progress must not change stdout either
		q := *sc
		q.Inv.Args = nil
		for _, a := range sc.Inv.Args {
			if a == "--progress" {
				a = "--no-progress"
			}
			q.Inv.Args = append(q.Inv.Args, a)
		}
		rq := RunA(c.T, c.H, &q, site)
		c.Stats.AddResult(rq)
		if rq.Panic != "" || rq.Hang {
			return nil // C10's business
		}
		if res.Failed != rq.Failed || !bytes.Equal(res.Stdout, rq.Stdout) {
			return &Violation{"C18/stdout-changed-by-progress", fmt.Sprintf("failing scan (%s): with --progress failed=%v stdout %q; with --no-progress failed=%v stdout %q", describeFaults(&sc.Plan), res.Failed, firstBytes(res.Stdout, 200), rq.Failed, firstBytes(rq.Stdout, 200))}
		}
		c.Stats.Probe("failing-scan-twins-compared")
		return nil
	}
	if res.Failed {
		return &Violation{"C18/run-failed", res.Err}
	}
	// the same run without progress
	q := *sc
	q.Inv.Args = nil
	for _, a := range sc.Inv.Args {
		if a == "--progress" {
			a = "--no-progress"
		}
		q.Inv.Args = append(q.Inv.Args, a)
	}
	rq := RunA(c.T, c.H, &q, site)
	c.Stats.AddResult(rq)
	if rq.Failed || rq.Panic != "" {
		return &Violation{"C18/run-failed", "--no-progress twin failed: " + rq.Err}
	}
	if !bytes.Equal(res.Stdout, rq.Stdout) {
		return &Violation{"C18/stdout-changed-by-progress", fmt.Sprintf("with --progress:\n%s\nwith --no-progress:\n%s", firstBytes(res.Stdout, 500), firstBytes(rq.Stdout, 500))}
	}
	if len(rq.Stderr) != 0 {
		return &Violation{"C18/stderr-without-progress", fmt.Sprintf("%q", firstBytes(rq.Stderr, 200))}
	}
	finals, frames, v := checkProgressStream(res.Stderr)
	if v != nil {
		return v
	}
	names := "full"
	for _, a := range sc.Inv.Args {
		if strings.HasPrefix(a, "--names=") {
			names = a[len("--names="):]
		}
	}
	want := map[string]uint64{
		"Processing blobs":          ex.Blobs,
		"Processing trees":          ex.Trees,
		"Processing commits":        ex.Commits,
		"Processing annotated tags": ex.Tags,
		"Processing references":     uint64(len(w.AllRefs()) + len(sc.Inv.Roots)),
	}
	if names != "none" {
		want["Matching commits to trees"] = ex.Commits
	}
	for _, k := range phaseOrder { // fixed order: the class reported must not depend on map order
		n, wanted := want[k]
		if !wanted {
			continue
		}
		g, ok := finals[k]
		if !ok {
			return &Violation{"C18/final-line-missing", k}
		}
		if g != n {
			return &Violation{"C18/final-count-wrong", fmt.Sprintf("%s: final line shows %d, %d items were processed (census)", k, g, n)}
		}
	}
	for k := range finals {
		if _, ok := want[k]; !ok {
			return &Violation{"C18/unexpected-phase", k}
		}
	}
	c.Stats.Extra["cli_progress_frames"] += float64(frames)
	if frames >= 2 {
		c.Stats.Nontrivial[sc.Hash()] = true
	}
	return nil
}

func sigOf(events []Event) string {
	var b strings.Builder
	for _, e := range events {
		b.WriteString(e.Actor)
		b.WriteByte('/')
		b.WriteString(e.Ev)
		b.WriteByte(';')
	}
	return fmt.Sprintf("%x", fnv64(b.String()))
}

func fnv64(s string) uint64 {
	h := uint64(14695981039346656037)
	for i := 0; i < len(s); i++ {
		h ^= uint64(s[i])
		h *= 1099511628211
	}
	return h
}

func checkC18(c *Ctx, rt *rapid.T) {
	g := G{rt}
	if !g.Chance(1, 12, "cli") {
		// many schedules per bubble keep the cost of a bubble (milliseconds) small per schedule
		n := g.Int(1, 24, "nschedules")
		p := c18Params{Mode: "meter"}
		for i := 0; i < n; i++ {
			p.Scripts = append(p.Scripts, GenMeterScript(g))
			p.Scheds = append(p.Scheds, g.Ints(40, 0, 9, "sched"))
		}
		sc := &Scenario{Format: 1, Property: "C18", Engine: "metersim", Params: p}
		if v := judgeC18(c, sc); v != nil {
			c.Fail(rt, sc, v.Class, v.Detail)
		}
		return
	}
	opts := DefaultGen
	w := GenWorld(g, opts)
	gm := NewGroupModel()
	refopts := GenRefOpts(g, w, gm, InvOpts{RefOpts: true, MaxRefOpts: 2})
	roots := GenRoots(g, w)
	fixed := FormatArgs(g, "")
	fixed = append(fixed, NamesArgs(g, "")...)
	fixed = append(fixed, "--progress")
	inv := BuildInvocation(g, fixed, refopts, roots, []string{"top"}, w)
	pl := GenPlan(g, false)
	// slow peers so that ticks fall inside every phase
	for _, k := range peerKinds {
		if len(pl.Peers[k].Delays) == 0 {
			pl.Peers[k].Delays = []int{g.Int(1_000_000, 30_000_000, k+"slow")}
		}
		if len(pl.Peers[k].Chunks) == 0 {
			pl.Peers[k].Chunks = []int{g.Int(20, 200, k+"slowchunk")}
		}
	}
	if g.Chance(1, 4, "failingscan") {
		k := g.PickStr(peerKinds, "faultpeer")
		pl.Peers[k].Faults = []Fault{genFault(g, k)}
	}
	sc := &Scenario{Format: 1, Property: "C18", Engine: "A", World: w, Inv: inv, Plan: pl, Params: c18Params{Mode: "cli", RefOpts: refopts}}
	if v := judgeC18(c, sc); v != nil {
		c.Fail(rt, sc, v.Class, v.Detail)
	}
}

func init() {
	comp := map[string]string{}
	for k, v := range componentsA {
		comp[k] = v
	}
	comp["meter.progressMeter (part 1)"] = "real code with hook H1 (build tag verif): the ticker goroutine parks after receiving a tick; worker, parked tickers and the fake clock are scheduled one at a time by the plan (baton scheduler)"
	Register(&Prop{ID: "C18", Check: checkC18, Replay: judgeC18, Components: comp,
		Rule: "(1) meter simulation: phase scripts Start;(Inc|Add n|sleep d)*;Done x 1-4 phases, periods 1/10/100 ms, with a seeded baton schedule choosing among {worker step, release a ticker parked between tick and lock, advance the fake clock}, the worker itself being parked once inside every Start() and Done() at the meter's Lock (yield point compiled in; parked tickers may go first); every frame checked online (count equals the items counted at that instant, never decreases, one final line per phase with the exact total, nothing for a phase after its final line). (2) whole system: CLI runs with --progress on generated worlds with peers slowed on the fake clock; stdout identical to --no-progress, stderr consists of well-formed frames only, final count of each phase equals the census (blobs, trees, commits, commits, tags, references+ROOTs). non-trivial: (1) at least one frame printed and one stale ticker woken after its phase ended, distinct by interleaving signature; (2) >= 2 intermediate frames, distinct by scenario hash"})
}
