package sim

// The reference model: what git-sizer must report for a world and a set
// of walked roots. No code is shared with git-sizer; arithmetic is in
// big integers and clamped at the end to each counter's documented
// capacity.

import (
	"fmt"
	"math/big"
	"sort"
)

var (
	cap32 = new(big.Int).SetUint64(1<<32 - 1)
	cap64 = new(big.Int).SetUint64(1<<64 - 1)
)

func clamp(v *big.Int, c *big.Int) uint64 {
	if v.Cmp(c) > 0 {
		return c.Uint64()
	}
	return v.Uint64()
}

func bi(n uint64) *big.Int { return new(big.Int).SetUint64(n) }

// Expansion is the recursive expansion of one tree.
type Expansion struct {
	Dirs, Files, Bytes, Links, Subs *big.Int
	Depth, Length                   *big.Int
}

type Expected struct {
	// census
	Commits, Trees, Blobs, Tags               uint64
	CommitSize, TreeSize, BlobSize, TreeEntry uint64 // 64-bit capped
	// maxima
	MaxCommitSize, MaxParents, MaxTreeEntries, MaxBlobSize uint64
	MaxHistoryDepth, MaxTagDepth                           uint64
	// checkout
	MaxDirs, MaxFiles, MaxBytes, MaxLinks, MaxSubs, MaxDepth, MaxLength uint64

	// witness sets (oid sets attaining each maximum)
	Witness map[string]map[string]bool

	// closure by kind
	Closure map[string]string // oid → kind

	// true (unclamped) values, for saturation checks
	True map[string]*big.Int

	// MissingNeeded is set if an object in the closure is missing.
	MissingNeeded []string
}

// Closure computes the set of objects reachable from roots.
func (w *World) Closure(roots []string) (map[string]string, []string) {
	seen := map[string]string{}
	var missing []string
	var stack []string
	push := func(id string) {
		if _, ok := seen[id]; ok {
			return
		}
		o := w.Get(id)
		if o == nil || o.Missing {
			seen[id] = "missing"
			missing = append(missing, id)
			return
		}
		seen[id] = o.Kind
		stack = append(stack, id)
	}
	for _, r := range roots {
		push(r)
	}
	for len(stack) > 0 {
		id := stack[len(stack)-1]
		stack = stack[:len(stack)-1]
		o := w.Get(id)
		switch o.Kind {
		case KCommit:
			ci := DecodeCommit(o.Body)
			push(ci.Tree)
			for _, p := range ci.Parents {
				push(p)
			}
		case KTree:
			es, err := DecodeTree(o.Body)
			if err != nil {
				panic("model tree does not parse: " + err.Error())
			}
			for _, e := range es {
				if e.IsGitlink() {
					continue
				}
				push(e.OID)
			}
		case KTag:
			push(DecodeTag(o.Body).Object)
		}
	}
	for id, k := range seen {
		if k == "missing" {
			delete(seen, id)
		}
	}
	sort.Strings(missing)
	return seen, missing
}

func (w *World) expand(id string, memo map[string]*Expansion) *Expansion {
	if e, ok := memo[id]; ok {
		return e
	}
	o := w.Get(id)
	x := &Expansion{Dirs: bi(1), Files: bi(0), Bytes: bi(0), Links: bi(0), Subs: bi(0), Depth: bi(0), Length: bi(0)}
	es, _ := DecodeTree(o.Body)
	one := bi(1)
	for _, e := range es {
		nameLen := bi(uint64(len(e.Name)))
		switch {
		case e.IsTree():
			s := w.expand(e.OID, memo)
			x.Dirs.Add(x.Dirs, s.Dirs)
			x.Files.Add(x.Files, s.Files)
			x.Bytes.Add(x.Bytes, s.Bytes)
			x.Links.Add(x.Links, s.Links)
			x.Subs.Add(x.Subs, s.Subs)
			d := new(big.Int).Add(s.Depth, one)
			if d.Cmp(x.Depth) > 0 {
				x.Depth = d
			}
			l := new(big.Int).Set(nameLen)
			if s.Length.Sign() > 0 {
				l.Add(l, one)
				l.Add(l, s.Length)
			}
			if l.Cmp(x.Length) > 0 {
				x.Length = l
			}
		case e.IsGitlink():
			x.Subs.Add(x.Subs, one)
			if one.Cmp(x.Depth) > 0 {
				x.Depth = bi(1)
			}
			if nameLen.Cmp(x.Length) > 0 {
				x.Length = nameLen
			}
		case e.IsSymlink():
			x.Links.Add(x.Links, one)
			if one.Cmp(x.Depth) > 0 {
				x.Depth = bi(1)
			}
			if nameLen.Cmp(x.Length) > 0 {
				x.Length = nameLen
			}
		default:
			x.Files.Add(x.Files, one)
			x.Bytes.Add(x.Bytes, bi(w.Get(e.OID).Size()))
			if one.Cmp(x.Depth) > 0 {
				x.Depth = bi(1)
			}
			if nameLen.Cmp(x.Length) > 0 {
				x.Length = nameLen
			}
		}
	}
	memo[id] = x
	return x
}

// Expect computes the expected report for the given walked roots.
// If an object of the closure is missing, MissingNeeded is non-empty and
// the numeric fields are meaningless.
func (w *World) Expect(roots []string) *Expected {
	cl, missing := w.Closure(roots)
	ex := &Expected{Closure: cl, MissingNeeded: missing, Witness: map[string]map[string]bool{}, True: map[string]*big.Int{}}
	if len(missing) > 0 {
		return ex
	}
	ids := make([]string, 0, len(cl))
	for id := range cl {
		ids = append(ids, id)
	}
	sort.Strings(ids)

	tv := func(name string) *big.Int {
		if v, ok := ex.True[name]; ok {
			return v
		}
		v := bi(0)
		ex.True[name] = v
		return v
	}
	// upd maintains a maximum and its witness set.
	upd := func(name string, v *big.Int, id string) {
		cur := tv(name)
		c := v.Cmp(cur)
		if c > 0 {
			cur.Set(v)
			ex.Witness[name] = map[string]bool{id: true}
		} else if c == 0 {
			if ex.Witness[name] == nil {
				ex.Witness[name] = map[string]bool{}
			}
			ex.Witness[name][id] = true
		}
	}
	for _, n := range []string{"commits", "trees", "blobs", "tags", "commit_size", "tree_size", "blob_size", "tree_entries",
		"max_commit_size", "max_parents", "max_tree_entries", "max_blob_size", "max_history_depth", "max_tag_depth",
		"max_dirs", "max_files", "max_bytes", "max_links", "max_subs", "max_depth", "max_length"} {
		tv(n)
	}

	memo := map[string]*Expansion{}
	depthMemo := map[string]*big.Int{}
	var cdepth func(id string) *big.Int
	cdepth = func(id string) *big.Int {
		// iterative to survive long chains
		if d, ok := depthMemo[id]; ok {
			return d
		}
		type frame struct {
			id string
			ps []string
			i  int
			d  *big.Int
		}
		st := []*frame{{id: id, ps: DecodeCommit(w.Get(id).Body).Parents, d: bi(0)}}
		for len(st) > 0 {
			f := st[len(st)-1]
			if f.i < len(f.ps) {
				p := f.ps[f.i]
				if d, ok := depthMemo[p]; ok {
					if d.Cmp(f.d) > 0 {
						f.d = d
					}
					f.i++
					continue
				}
				st = append(st, &frame{id: p, ps: DecodeCommit(w.Get(p).Body).Parents, d: bi(0)})
				continue
			}
			depthMemo[f.id] = new(big.Int).Add(f.d, bi(1))
			st = st[:len(st)-1]
		}
		return depthMemo[id]
	}
	tagMemo := map[string]*big.Int{}
	var tdepth func(id string) *big.Int
	tdepth = func(id string) *big.Int {
		if d, ok := tagMemo[id]; ok {
			return d
		}
		ti := DecodeTag(w.Get(id).Body)
		d := bi(1)
		if t := w.Get(ti.Object); t != nil && t.Kind == KTag {
			d.Add(d, tdepth(ti.Object))
		}
		tagMemo[id] = d
		return d
	}

	one := bi(1)
	for _, id := range ids {
		o := w.Get(id)
		sz := bi(o.Size())
		switch o.Kind {
		case KBlob:
			tv("blobs").Add(tv("blobs"), one)
			tv("blob_size").Add(tv("blob_size"), sz)
			upd("max_blob_size", sz, id)
		case KTree:
			tv("trees").Add(tv("trees"), one)
			tv("tree_size").Add(tv("tree_size"), sz)
			es, _ := DecodeTree(o.Body)
			n := bi(uint64(len(es)))
			tv("tree_entries").Add(tv("tree_entries"), n)
			upd("max_tree_entries", n, id)
			x := w.expand(id, memo)
			upd("max_dirs", x.Dirs, id)
			upd("max_files", x.Files, id)
			upd("max_bytes", x.Bytes, id)
			upd("max_links", x.Links, id)
			upd("max_subs", x.Subs, id)
			upd("max_depth", x.Depth, id)
			upd("max_length", x.Length, id)
		case KCommit:
			tv("commits").Add(tv("commits"), one)
			tv("commit_size").Add(tv("commit_size"), sz)
			upd("max_commit_size", sz, id)
			ci := DecodeCommit(o.Body)
			upd("max_parents", bi(uint64(len(ci.Parents))), id)
			upd("max_history_depth", cdepth(id), id)
		case KTag:
			tv("tags").Add(tv("tags"), one)
			upd("max_tag_depth", tdepth(id), id)
		}
	}

	ex.Commits = clamp(tv("commits"), cap32)
	ex.Trees = clamp(tv("trees"), cap32)
	ex.Blobs = clamp(tv("blobs"), cap32)
	ex.Tags = clamp(tv("tags"), cap32)
	ex.CommitSize = clamp(tv("commit_size"), cap64)
	ex.TreeSize = clamp(tv("tree_size"), cap64)
	ex.BlobSize = clamp(tv("blob_size"), cap64)
	ex.TreeEntry = clamp(tv("tree_entries"), cap64)
	ex.MaxCommitSize = clamp(tv("max_commit_size"), cap32)
	ex.MaxParents = clamp(tv("max_parents"), cap32)
	ex.MaxTreeEntries = clamp(tv("max_tree_entries"), cap32)
	ex.MaxBlobSize = clamp(tv("max_blob_size"), cap32)
	ex.MaxHistoryDepth = clamp(tv("max_history_depth"), cap32)
	ex.MaxTagDepth = clamp(tv("max_tag_depth"), cap32)
	ex.MaxDirs = clamp(tv("max_dirs"), cap32)
	ex.MaxFiles = clamp(tv("max_files"), cap32)
	ex.MaxBytes = clamp(tv("max_bytes"), cap64)
	ex.MaxLinks = clamp(tv("max_links"), cap32)
	ex.MaxSubs = clamp(tv("max_subs"), cap32)
	ex.MaxDepth = clamp(tv("max_depth"), cap32)
	ex.MaxLength = clamp(tv("max_length"), cap32)
	return ex
}

// JSONv1Fields maps JSON v1 keys to expected values.
func (ex *Expected) JSONv1Fields() map[string]uint64 {
	return map[string]uint64{
		"unique_commit_count":          ex.Commits,
		"unique_commit_size":           ex.CommitSize,
		"max_commit_size":              ex.MaxCommitSize,
		"max_history_depth":            ex.MaxHistoryDepth,
		"max_parent_count":             ex.MaxParents,
		"unique_tree_count":            ex.Trees,
		"unique_tree_size":             ex.TreeSize,
		"unique_tree_entries":          ex.TreeEntry,
		"max_tree_entries":             ex.MaxTreeEntries,
		"unique_blob_count":            ex.Blobs,
		"unique_blob_size":             ex.BlobSize,
		"max_blob_size":                ex.MaxBlobSize,
		"unique_tag_count":             ex.Tags,
		"max_tag_depth":                ex.MaxTagDepth,
		"max_path_depth":               ex.MaxDepth,
		"max_path_length":              ex.MaxLength,
		"max_expanded_tree_count":      ex.MaxDirs,
		"max_expanded_blob_count":      ex.MaxFiles,
		"max_expanded_blob_size":       ex.MaxBytes,
		"max_expanded_link_count":      ex.MaxLinks,
		"max_expanded_submodule_count": ex.MaxSubs,
	}
}

// Field groups per property.
var (
	CensusFields   = []string{"unique_commit_count", "unique_commit_size", "unique_tree_count", "unique_tree_size", "unique_tree_entries", "unique_blob_count", "unique_blob_size", "unique_tag_count"}
	MaximaFields   = []string{"max_commit_size", "max_parent_count", "max_tree_entries", "max_blob_size"}
	DepthFields    = []string{"max_history_depth", "max_tag_depth"}
	CheckoutFields = []string{"max_path_depth", "max_path_length", "max_expanded_tree_count", "max_expanded_blob_count", "max_expanded_blob_size", "max_expanded_link_count", "max_expanded_submodule_count"}
)

// v1Key → (true-value key, witness key, 64-bit?)
var fieldTrue = map[string]struct {
	True string
	Wide bool
}{
	"unique_commit_count":          {"commits", false},
	"unique_commit_size":           {"commit_size", true},
	"max_commit_size":              {"max_commit_size", false},
	"max_history_depth":            {"max_history_depth", false},
	"max_parent_count":             {"max_parents", false},
	"unique_tree_count":            {"trees", false},
	"unique_tree_size":             {"tree_size", true},
	"unique_tree_entries":          {"tree_entries", true},
	"max_tree_entries":             {"max_tree_entries", false},
	"unique_blob_count":            {"blobs", false},
	"unique_blob_size":             {"blob_size", true},
	"max_blob_size":                {"max_blob_size", false},
	"unique_tag_count":             {"tags", false},
	"max_tag_depth":                {"max_tag_depth", false},
	"max_path_depth":               {"max_depth", false},
	"max_path_length":              {"max_length", false},
	"max_expanded_tree_count":      {"max_dirs", false},
	"max_expanded_blob_count":      {"max_files", false},
	"max_expanded_blob_size":       {"max_bytes", true},
	"max_expanded_link_count":      {"max_links", false},
	"max_expanded_submodule_count": {"max_subs", false},
}

// CompareV1 compares the numeric fields named in keys between a parsed
// JSON v1 report and the expectation; it returns a list of mismatches.
func (ex *Expected) CompareV1(got map[string]interface{}, keys []string) []string {
	var bad []string
	want := ex.JSONv1Fields()
	for _, k := range keys {
		g, ok := got[k]
		if !ok {
			bad = append(bad, fmt.Sprintf("%s: absent (want %d)", k, want[k]))
			continue
		}
		gu, ok := jsonUint(g)
		if !ok {
			bad = append(bad, fmt.Sprintf("%s: not an unsigned integer: %v", k, g))
			continue
		}
		if gu != want[k] {
			bad = append(bad, fmt.Sprintf("%s: got %d want %d", k, gu, want[k]))
		}
	}
	return bad
}
