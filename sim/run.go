package sim

// Engine A: one in-process execution of git-sizer's mainImplementation
// inside a synctest bubble, against simulated peers.

import (
	"bytes"
	"context"
	"crypto/sha256"
	"encoding/hex"
	"fmt"
	"io"
	"os"
	"path/filepath"
	"runtime"
	"runtime/debug"
	"strings"
	"sync"
	"syscall"
	"testing"
	"testing/synctest"
	"time"
	"verif/sim/yieldpt"

	"github.com/github/go-pipe/pipe"
)

// Hooks are the entry points of git-sizer handed over by the glue file.
type Hooks struct {
	Main func(ctx context.Context, stdout, stderr io.Writer, args []string) error
	// set by the glue for the API-level drivers (see graphfeed.go, metersim.go, parsers.go)
	Graph   GraphAPI
	Meter   MeterAPI
	Parsers ParserAPI
}

// Result is everything observable about one run.
type Result struct {
	Err     string // error returned by mainImplementation ("" = exit 0)
	Failed  bool
	Stdout  []byte
	Stderr  []byte
	Panic   string // panic on the main goroutine
	Hang    bool
	Leaked  bool // goroutines still blocked after main returned
	SimNS   int64
	Events  []Event
	Sig     string // interleaving signature
	Run     *Run
	CPUNS   int64 // engine B: user+system time of the process tree
	WallNS  int64
	StderrW *stampWriter
	// StdoutFailed: the injected stdout write error was hit
	StdoutFailed bool
	// LeakedStdout: bytes written to the process's os.Stdout instead of the
	// writer handed to mainImplementation (already appended to Stdout)
	LeakedStdout []byte
}

// failingWriter accepts `left` bytes and then fails like a full disk.
type failingWriter struct {
	w      io.Writer
	left   int
	failed bool
}

func (f *failingWriter) Write(b []byte) (int, error) {
	if len(b) <= f.left {
		f.left -= len(b)
		return f.w.Write(b)
	}
	n := f.left
	if n > 0 {
		f.w.Write(b[:n])
	}
	f.left = 0
	f.failed = true
	return n, syscall.ENOSPC
}

// stampWriter records writes with event sequence numbers.
type stampWriter struct {
	run *Run
	mu  sync.Mutex
	buf bytes.Buffer
	// Writes holds each individual Write call
	Writes []StampedWrite
	name   string
}

type StampedWrite struct {
	Seq  int
	TNS  int64
	Data []byte
}

func (w *stampWriter) Write(b []byte) (int, error) {
	w.mu.Lock()
	defer w.mu.Unlock()
	w.buf.Write(b)
	var seq int
	var tns int64
	if w.run != nil {
		w.run.mu.Lock()
		seq = w.run.seq
		w.run.seq++
		tns = int64(time.Since(w.run.t0))
		w.run.events = append(w.run.events, Event{Seq: seq, TNS: tns, Actor: w.name, Ev: "out", N: len(b)})
		w.run.mu.Unlock()
	}
	w.Writes = append(w.Writes, StampedWrite{Seq: seq, TNS: tns, Data: append([]byte(nil), b...)})
	return len(b), nil
}

// CurrentFile, when set, receives the scenario before every run.
var CurrentFile string

var debugLeak = os.Getenv("VERIF_DEBUG_LEAK") != ""

var runMu sync.Mutex // cwd and environment are process-global

// setProcessEnv replaces the process environment.
func setProcessEnv(env []string) {
	os.Clearenv()
	for _, kv := range env {
		if i := strings.IndexByte(kv, '='); i > 0 {
			os.Setenv(kv[:i], kv[i+1:])
		}
	}
}

// CwdFor returns the directory a scenario's invocation runs in.
func CwdFor(site *Site, inv *Invocation) string {
	switch inv.Cwd {
	case "subdir":
		if site.WorkDir != "" {
			return filepath.Join(site.WorkDir, "sub", "dir")
		}
	case "elsewhere":
		return site.Root
	case "gitdir":
		return site.GitDir
	case "symlink":
		// <root>/lnk -> <worktree>/sub/dir, created on first use; the
		// logical path (what $PWD holds) has a different parent chain
		// than the physical one
		if site.WorkDir != "" {
			l := filepath.Join(site.Root, "lnk")
			if _, err := os.Lstat(l); err != nil {
				os.Symlink(filepath.Join(site.WorkDir, "sub", "dir"), l)
			}
			return l
		}
	}
	if site.WorkDir != "" {
		return site.WorkDir
	}
	return site.GitDir
}

// EnvFor returns the environment of the scenario's invocation.
func EnvFor(site *Site, inv *Invocation) []string {
	env := append([]string(nil), site.Env...)
	for k, v := range inv.Env {
		v = strings.ReplaceAll(v, "$GITDIR", site.GitDir)
		v = strings.ReplaceAll(v, "$ROOT", site.Root)
		env = append(env, k+"="+v)
	}
	return env
}

const watchdog = time.Hour

// ProcessStdout is the worker's own stdout; os.Stdout is swapped for a
// capture file while git-sizer runs in-process.
var ProcessStdout = os.Stdout

// While an in-process run is under way the file CurrentFile+".running"
// exists. The fake-time watchdog cannot see a goroutine that spins without
// ever blocking (fake time only advances when every goroutine of the bubble
// is blocked), so the driver watches that file from outside on the real
// clock: a run still under way after 150 s is a livelock, and CurrentFile
// holds its scenario. (A watcher goroutine inside the worker would disturb
// the run queue of the single P it shares with the simulation.)

// RunA executes the scenario in-process. The site must be the
// materialised sc.World.
func RunA(t *testing.T, h Hooks, sc *Scenario, site *Site) *Result {
	runMu.Lock()
	defer runMu.Unlock()

	res := &Result{}
	run := &Run{sc: sc, w: sc.World, site: site}
	res.Run = run

	savedEnv := os.Environ()
	savedWd, _ := os.Getwd()
	defer func() {
		setProcessEnv(savedEnv)
		os.Chdir(savedWd)
	}()
	setProcessEnv(EnvFor(site, &sc.Inv))
	if err := os.Chdir(CwdFor(site, &sc.Inv)); err != nil {
		panic(err)
	}
	if len(sc.Plan.Oneshot) > 0 {
		planFile := filepath.Join(site.Root, "shim-plan.json")
		writeShimPlan(planFile, sc.Plan.Oneshot)
		os.Setenv("VERIF_SHIM_PLAN", planFile)
		state := filepath.Join(site.Root, "shim-state")
		os.RemoveAll(state)
		os.Setenv("VERIF_SHIM_STATE", state)
	}

	if CurrentFile != "" {
		// crash attribution: a panic in a goroutine the runner cannot
		// recover kills the worker; the driver then replays this file
		sc.Save(CurrentFile)
		os.WriteFile(CurrentFile+".running", nil, 0o644)
		defer os.Remove(CurrentFile + ".running")
	}
	pipe.SimCommandStage = run.Factory
	defer func() { pipe.SimCommandStage = nil }()
	if !noYields {
		yieldpt.Set(sc.Plan.GoYields)
	}
	defer yieldpt.Set(nil)

	var stdout bytes.Buffer
	var stdoutW io.Writer = &stdout
	var fw *failingWriter
	if sc.Plan.StdoutFailAt > 0 {
		fw = &failingWriter{w: &stdout, left: sc.Plan.StdoutFailAt - 1}
		stdoutW = fw
	}
	stderr := &stampWriter{run: run, name: "stderr"}
	res.StderrW = stderr

	// Anything git-sizer writes to the process's own stdout (fmt.Println
	// instead of the stdout writer it was given) would be on stdout of the
	// real binary: capture it and count it as report output.
	realStdout := os.Stdout
	var leakFile *os.File
	if f, err := os.CreateTemp(site.Root, "stdout-leak-"); err == nil {
		leakFile = f
		os.Stdout = f
	}
	wall0 := time.Now()
	func() {
		defer func() {
			if p := recover(); p != nil {
				msg := fmt.Sprint(p)
				if strings.Contains(msg, "blocked goroutines remain") || strings.Contains(msg, "deadlock") {
					res.Leaked = true
					if debugLeak {
						buf := make([]byte, 1<<20)
						n := runtime.Stack(buf, true)
						fmt.Fprintf(os.Stderr, "LEAK args=%v\n%s\n", sc.Inv.Args, buf[:n])
					}
					return
				}
				// a panic that escaped the bubble some other way
				res.Panic = msg + "\n" + string(debug.Stack())
			}
		}()
		synctest.Test(t, func(t *testing.T) {
			run.t0 = time.Now()
			stopYield := yieldpt.Start()
			defer stopYield()
			done := make(chan struct{})
			go func() {
				defer close(done)
				defer func() {
					if p := recover(); p != nil {
						res.Panic = fmt.Sprint(p) + "\n" + string(debug.Stack())
					}
				}()
				err := h.Main(context.Background(), stdoutW, stderr, sc.Inv.Args)
				if err != nil {
					res.Failed = true
					res.Err = err.Error()
				}
			}()
			select {
			case <-done:
				res.SimNS = int64(time.Since(run.t0))
				// let stale progress tickers fire once more and exit
				time.Sleep(250 * time.Millisecond)
			case <-time.After(watchdog):
				res.Hang = true
				res.SimNS = int64(time.Since(run.t0))
				if HangHandler != nil && hasArg(sc.Inv.Args, "--progress") {
					HangHandler(sc)
				}
			}
		})
	}()
	res.WallNS = int64(time.Since(wall0))
	os.Stdout = realStdout
	res.Stdout = stdout.Bytes()
	if leakFile != nil {
		leakFile.Close()
		if b, err := os.ReadFile(leakFile.Name()); err == nil && len(b) > 0 {
			res.LeakedStdout = b
			res.Stdout = append(append([]byte(nil), res.Stdout...), b...)
		}
		os.Remove(leakFile.Name())
	}
	if fw != nil && fw.failed {
		res.StdoutFailed = true
		run.fired("stdout-write-error")
	}
	res.Stderr = stderr.buf.Bytes()
	run.mu.Lock()
	res.Events = append([]Event(nil), run.events...)
	run.mu.Unlock()
	hsh := sha256.New()
	for _, e := range res.Events {
		fmt.Fprintf(hsh, "%s/%s;", e.Actor, e.Ev)
	}
	res.Sig = hex.EncodeToString(hsh.Sum(nil)[:8])
	return res
}

// ExitCode mimics main(): 0 on success, 1 on error; a panic is 2.
func (r *Result) ExitCode() int {
	switch {
	case r.Panic != "":
		return 2
	case r.Failed:
		return 1
	}
	return 0
}

// CLIStderr is what the real binary would print on stderr.
func (r *Result) CLIStderr() []byte {
	if r.Failed {
		return append(append([]byte(nil), r.Stderr...), []byte("error: "+r.Err+"\n")...)
	}
	return r.Stderr
}
