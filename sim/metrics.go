package sim

// The documented metrics: JSON v2 symbol, JSON v1 key, table location,
// prefix system, unit and counter width. (Reference values are *not*
// listed here: the oracles take them from JSON v2's referenceValue.)

type Metric struct {
	Symbol  string // JSON v2 key
	V1      string // JSON v1 key
	Row     string // "Section/Sub/Label" in the table
	Binary  bool   // powers of 1024 with unit B; else powers of 1000
	Wide    bool   // 64-bit counter
	CiteV1  string // JSON v1 key of the cited object ("" = none)
	Witness string // key into Expected.Witness / True
	Kind    string // kind of the cited object
}

var Metrics = []Metric{
	{"uniqueCommitCount", "unique_commit_count", "Overall repository size/Commits/Count", false, false, "", "commits", ""},
	{"uniqueCommitSize", "unique_commit_size", "Overall repository size/Commits/Total size", true, true, "", "commit_size", ""},
	{"uniqueTreeCount", "unique_tree_count", "Overall repository size/Trees/Count", false, false, "", "trees", ""},
	{"uniqueTreeSize", "unique_tree_size", "Overall repository size/Trees/Total size", true, true, "", "tree_size", ""},
	{"uniqueTreeEntries", "unique_tree_entries", "Overall repository size/Trees/Total tree entries", false, true, "", "tree_entries", ""},
	{"uniqueBlobCount", "unique_blob_count", "Overall repository size/Blobs/Count", false, false, "", "blobs", ""},
	{"uniqueBlobSize", "unique_blob_size", "Overall repository size/Blobs/Total size", true, true, "", "blob_size", ""},
	{"uniqueTagCount", "unique_tag_count", "Overall repository size/Annotated tags/Count", false, false, "", "tags", ""},
	{"referenceCount", "reference_count", "Overall repository size/References/Count", false, false, "", "", ""},
	{"maxCommitSize", "max_commit_size", "Biggest objects/Commits/Maximum size", true, false, "max_commit", "max_commit_size", KCommit},
	{"maxCommitParentCount", "max_parent_count", "Biggest objects/Commits/Maximum parents", false, false, "max_parent_count_commit", "max_parents", KCommit},
	{"maxTreeEntries", "max_tree_entries", "Biggest objects/Trees/Maximum entries", false, false, "max_tree_entries_tree", "max_tree_entries", KTree},
	{"maxBlobSize", "max_blob_size", "Biggest objects/Blobs/Maximum size", true, false, "max_blob_size_blob", "max_blob_size", KBlob},
	{"maxHistoryDepth", "max_history_depth", "History structure/Maximum history depth", false, false, "", "max_history_depth", ""},
	{"maxTagDepth", "max_tag_depth", "History structure/Maximum tag depth", false, false, "max_tag_depth_tag", "max_tag_depth", KTag},
	{"maxCheckoutTreeCount", "max_expanded_tree_count", "Biggest checkouts/Number of directories", false, false, "max_expanded_tree_count_tree", "max_dirs", KTree},
	{"maxCheckoutPathDepth", "max_path_depth", "Biggest checkouts/Maximum path depth", false, false, "max_path_depth_tree", "max_depth", KTree},
	{"maxCheckoutPathLength", "max_path_length", "Biggest checkouts/Maximum path length", true, false, "max_path_length_tree", "max_length", KTree},
	{"maxCheckoutBlobCount", "max_expanded_blob_count", "Biggest checkouts/Number of files", false, false, "max_expanded_blob_count_tree", "max_files", KTree},
	{"maxCheckoutBlobSize", "max_expanded_blob_size", "Biggest checkouts/Total size of files", true, true, "max_expanded_blob_size_tree", "max_bytes", KTree},
	{"maxCheckoutLinkCount", "max_expanded_link_count", "Biggest checkouts/Number of symlinks", false, false, "max_expanded_link_count_tree", "max_links", KTree},
	{"maxCheckoutSubmoduleCount", "max_expanded_submodule_count", "Biggest checkouts/Number of submodules", false, false, "max_expanded_submodule_count_tree", "max_subs", KTree},
}

func (m Metric) Capacity() uint64 {
	if m.Wide {
		return 1<<64 - 1
	}
	return 1<<32 - 1
}
