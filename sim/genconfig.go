package sim

// Generators for gitconfig contents (refgroup forests, sizer.* settings,
// foreign entries of every value shape) and for regular expressions.

import (
	"fmt"
	"strings"
)

// GenRegexp draws a regular expression over reference names. It prefers
// building blocks taken from the world's own reference names so that
// matches and near-misses both occur.
func GenRegexp(g G, names []string) string {
	atom := func(label string) string {
		switch g.Pick(8, label) {
		case 0:
			return ".*"
		case 1:
			return "[^/]+"
		case 2:
			return `\d+`
		case 3:
			return "[a-m]+"
		case 4:
			return "."
		default:
			if len(names) > 0 {
				n := names[g.Pick(len(names), label+"name")]
				parts := strings.Split(n, "/")
				p := parts[g.Pick(len(parts), label+"part")]
				return quoteMeta(p)
			}
			return g.PickStr([]string{"main", "foo", "v1", "heads", "tags"}, label+"lit")
		}
	}
	whole := func(label string) string {
		// a pattern for (usually) a whole reference name
		switch g.Pick(6, label) {
		case 0:
			if len(names) > 0 {
				return quoteMeta(names[g.Pick(len(names), label+"full")])
			}
			return "refs/heads/main"
		case 1:
			return g.PickStr([]string{"refs/heads/", "refs/tags/", "refs/remotes/[^/]+/", "refs/", "refs/[^/]+/"}, label+"pre") + atom(label+"a")
		case 2:
			if len(names) > 0 {
				n := names[g.Pick(len(names), label+"cut")]
				if g.Bool(label + "cutboundary") {
					// a literal that is a whole namespace (what a prefix rule would
					// match, a regexp must not): cut at a '/' boundary
					var cuts []int
					for i := 0; i < len(n); i++ {
						if n[i] == '/' {
							cuts = append(cuts, i, i+1)
						}
					}
					if len(cuts) > 0 {
						return quoteMeta(n[:cuts[g.Pick(len(cuts), label+"cutb")]])
					}
				}
				return quoteMeta(n[:g.Int(0, len(n), label+"cutat")])
			}
			return "refs/he"
		case 3:
			if len(names) > 0 {
				n := names[g.Pick(len(names), label+"suf")]
				return quoteMeta(n[g.Int(0, len(n), label+"sufat"):])
			}
			return "main"
		case 4:
			return "refs/(heads|tags)/" + atom(label+"b")
		default:
			return "refs/" + atom(label+"c") + "/" + atom(label+"d")
		}
	}
	switch g.Pick(8, "reshape") {
	case 0, 1, 2: // top-level alternation
		n := g.Int(2, 3, "nalts")
		var alts []string
		for i := 0; i < n; i++ {
			alts = append(alts, whole(fmt.Sprintf("alt%d", i)))
		}
		return strings.Join(alts, "|")
	case 3:
		return "^" + whole("anch") + "$"
	case 4:
		return "(" + whole("grp1") + "|" + whole("grp2") + ")"
	case 5:
		return whole("w1") + ".*"
	default:
		return whole("w2")
	}
}

func quoteMeta(s string) string {
	var b strings.Builder
	for i := 0; i < len(s); i++ {
		c := s[i]
		if strings.IndexByte(`\.+*?()|[]{}^$`, c) >= 0 {
			b.WriteByte('\\')
		}
		b.WriteByte(c)
	}
	return b.String()
}

// configValue renders a value so that git reads it back exactly.
func configValue(v string) string {
	var b strings.Builder
	b.WriteByte('"')
	for i := 0; i < len(v); i++ {
		switch c := v[i]; c {
		case '"':
			b.WriteString(`\"`)
		case '\\':
			b.WriteString(`\\`)
		case '\n':
			b.WriteString(`\n`)
		case '\t':
			b.WriteString(`\t`)
		default:
			b.WriteByte(c)
		}
	}
	b.WriteByte('"')
	return b.String()
}

func configSubsection(s string) string {
	var b strings.Builder
	for i := 0; i < len(s); i++ {
		if s[i] == '"' || s[i] == '\\' {
			b.WriteByte('\\')
		}
		b.WriteByte(s[i])
	}
	return b.String()
}

// GroupSpec is one generated refgroup definition.
type GroupSpec struct {
	Symbol string
	Name   string // "" = none
	Rules  []GroupRule
}

// GenGroups draws a refgroup forest. Every leaf has at least one rule
// (rule-less leaves are rejected by git-sizer by design). maxDepth is the
// maximum number of dotted components.
func GenGroups(g G, w *World, maxDepth int, exoticNames bool) []GroupSpec {
	var names []string
	for _, r := range w.AllRefs() {
		names = append(names, r.Name)
	}
	n := g.Int(0, 5, "ngroups")
	comps := []string{"a", "b", "c", "rel", "misc", "x", "team", "Main", "my-group", "g1"}
	if exoticNames {
		// symbols that differ only in letter case are different groups (git keeps the case of subsections)
		comps = append(comps, "A", "Rel", "REL", "main", "MAIN", "Team", "X")
		builtinsCase := []string{"Tags", "Branches", "TAGS", "Remotes"}
		comps = append(comps, builtinsCase...)
		comps = append(comps, "sp ace", "q\"uote", "back\\slash", "UPPER", "caf\xc3\xa9", "[1]", "per%cent", "semi;colon", "a=b", "#hash")
	}
	builtins := []string{"branches", "tags", "remotes", "pulls", "notes"}
	var specs []GroupSpec
	have := map[string]bool{}
	for i := 0; i < n; i++ {
		var sym string
		switch g.Pick(6, "symkind") {
		case 0:
			if len(specs) > 0 { // child of an existing group
				sym = specs[g.Pick(len(specs), "symparent")].Symbol + "." + comps[g.Pick(len(comps), "symcomp")]
			}
		case 1: // child of a built-in
			sym = g.PickStr(builtins, "symbuiltin") + "." + comps[g.Pick(len(comps), "symcomp2")]
		case 2: // augment a built-in
			sym = g.PickStr(builtins, "augbuiltin")
		case 3: // deep chain with implicit parents
			d := g.Int(2, maxDepth, "symdepth")
			var cs []string
			for j := 0; j < d; j++ {
				cs = append(cs, comps[g.Pick(len(comps), "deepcomp")])
			}
			sym = strings.Join(cs, ".")
		}
		if sym == "" {
			sym = comps[g.Pick(len(comps), "symtop")]
		}
		if strings.Count(sym, ".")+1 > maxDepth || have[sym] {
			continue
		}
		have[sym] = true
		gs := GroupSpec{Symbol: sym}
		if g.Chance(1, 3, "hasname") {
			gs.Name = g.PickStr([]string{"Releases", "My group", "x", "Ünïcode", "with \"quotes\"", "[7]", "very long display name for a reference group"}, "gname")
		}
		nr := g.Int(1, 3, "nrules")
		for j := 0; j < nr; j++ {
			r := GroupRule{Include: j == 0 || g.Chance(2, 3, "ruleinc")}
			if g.Chance(1, 3, "rulere") {
				r.Regexp = true
				r.Pattern = GenRegexp(g, names)
			} else if len(names) > 0 && g.Chance(2, 3, "rulecut") {
				nm := names[g.Pick(len(names), "rulename")]
				cut := g.Int(0, len(nm), "rulecutat")
				if g.Bool("ruleslash") {
					if k := strings.LastIndexByte(nm[:cut], '/'); k >= 0 {
						cut = k
					}
				}
				r.Pattern = nm[:cut]
			} else {
				r.Pattern = g.PickStr([]string{"refs/heads", "refs/heads/", "refs/tags", "refs/tags/v", "refs/", "refs/remotes/origin", "refs/foo", "refs/heads/feature"}, "rulefixed")
			}
			if exoticNames && g.Chance(1, 5, "padvalue") {
				// the exact value counts: leading / trailing blanks are part of it
				switch g.Pick(4, "padkind") {
				case 0:
					r.Pattern = r.Pattern + " "
				case 1:
					r.Pattern = " " + r.Pattern
				case 2:
					r.Pattern = r.Pattern + "\t"
				default:
					if r.Regexp {
						r.Pattern = r.Pattern + "| " // an alternative that only matches " "
					} else {
						r.Pattern = r.Pattern + "  "
					}
				}
			}
			gs.Rules = append(gs.Rules, r)
		}
		if g.Chance(1, 4, "repeatrule") {
			// the very same entry once more after the others (as a file
			// included from two scopes gives): rules apply in git's order,
			// so the repeat matters when an opposite rule lies in between
			gs.Rules = append(gs.Rules, gs.Rules[0])
			if len(gs.Rules) == 2 && len(names) > 0 {
				// make sure something opposite and overlapping lies in between
				nm := names[g.Pick(len(names), "opposedname")]
				mid := GroupRule{Include: !gs.Rules[0].Include, Pattern: nm}
				gs.Rules = []GroupRule{gs.Rules[0], mid, gs.Rules[0]}
			}
		}
		specs = append(specs, gs)
	}
	if g.Chance(1, 5, "family") && len(names) > 0 {
		// a family of 3-5 sibling subgroups under a parent that has no rules of
		// its own (possibly two implicit levels), each sibling matching its own
		// subset of the references: a reference is then matched / not matched /
		// matched by successive siblings
		parent := g.PickStr([]string{"fam", "fam.inner", "kin"}, "famparent")
		if !have[parent] {
			ns := g.Int(3, 5, "nfam")
			for i := 0; i < ns; i++ {
				sym := fmt.Sprintf("%s.s%d", parent, i)
				if have[sym] {
					continue
				}
				have[sym] = true
				var pat string
				switch g.Pick(3, "fampat") {
				case 0:
					pat = names[g.Pick(len(names), "famname")]
				case 1:
					nm := names[g.Pick(len(names), "famname2")]
					if k := strings.LastIndexByte(nm, '/'); k > 0 {
						pat = nm[:k]
					} else {
						pat = nm
					}
				default:
					pat = g.PickStr([]string{"refs/heads", "refs/tags", "refs/remotes", "refs/"}, "famfixed")
				}
				specs = append(specs, GroupSpec{Symbol: sym, Rules: []GroupRule{{Include: true, Pattern: pat}}})
			}
		}
	}
	return specs
}

// RenderGroups renders group specs as gitconfig text.
func RenderGroups(specs []GroupSpec, g *G) string {
	var b strings.Builder
	for _, gs := range specs {
		fmt.Fprintf(&b, "[refgroup \"%s\"]\n", configSubsection(gs.Symbol))
		if gs.Name != "" {
			fmt.Fprintf(&b, "\tname = %s\n", configValue(gs.Name))
		}
		for _, r := range gs.Rules {
			key := "include"
			if !r.Include {
				key = "exclude"
			}
			if r.Regexp {
				key += "Regexp"
			}
			if g != nil && g.Chance(1, 4, "keycase") {
				key = strings.ToUpper(key[:1]) + key[1:]
			}
			fmt.Fprintf(&b, "\t%s = %s\n", key, configValue(r.Pattern))
		}
	}
	return b.String()
}
