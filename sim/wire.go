package sim

// Lossless JSON for byte strings: Go strings in scenarios may hold
// arbitrary bytes (reference names, file names, patterns). encoding/json
// replaces invalid UTF-8 by U+FFFD, which would make replay files
// unfaithful. Before marshalling, every byte that is not part of a valid
// UTF-8 sequence is mapped to the private-use rune U+F700+byte; after
// unmarshalling the mapping is undone.

import (
	"reflect"
	"strings"
	"unicode/utf8"
)

const wireBase = 0xF700

func wireEncode(s string) string {
	if utf8.ValidString(s) && !strings.ContainsRune(s, 0xF7FF) && !hasWireRune(s) {
		return s
	}
	var b strings.Builder
	for i := 0; i < len(s); {
		r, n := utf8.DecodeRuneInString(s[i:])
		if r == utf8.RuneError && n == 1 {
			b.WriteRune(rune(wireBase + int(s[i])))
			i++
			continue
		}
		if r >= wireBase && r <= wireBase+0xFF {
			// a genuine private-use rune: escape its bytes one by one
			for j := 0; j < n; j++ {
				b.WriteRune(rune(wireBase + int(s[i+j])))
			}
			i += n
			continue
		}
		b.WriteString(s[i : i+n])
		i += n
	}
	return b.String()
}

func hasWireRune(s string) bool {
	for _, r := range s {
		if r >= wireBase && r <= wireBase+0xFF {
			return true
		}
	}
	return false
}

func wireDecode(s string) string {
	if !hasWireRune(s) {
		return s
	}
	var b []byte
	for _, r := range s {
		if r >= wireBase && r <= wireBase+0xFF {
			b = append(b, byte(r-wireBase))
			continue
		}
		b = utf8.AppendRune(b, r)
	}
	return string(b)
}

// mapStrings returns a deep copy of v with f applied to every string
// (including map keys). []byte values are copied untouched.
func mapStrings(v reflect.Value, f func(string) string) reflect.Value {
	switch v.Kind() {
	case reflect.String:
		out := reflect.New(v.Type()).Elem()
		out.SetString(f(v.String()))
		return out
	case reflect.Ptr:
		if v.IsNil() {
			return v
		}
		out := reflect.New(v.Type().Elem())
		out.Elem().Set(mapStrings(v.Elem(), f))
		return out
	case reflect.Interface:
		if v.IsNil() {
			return v
		}
		out := reflect.New(v.Type()).Elem()
		out.Set(mapStrings(v.Elem(), f))
		return out
	case reflect.Struct:
		out := reflect.New(v.Type()).Elem()
		for i := 0; i < v.NumField(); i++ {
			if !out.Field(i).CanSet() {
				continue
			}
			out.Field(i).Set(mapStrings(v.Field(i), f))
		}
		return out
	case reflect.Slice:
		if v.IsNil() {
			return v
		}
		if v.Type().Elem().Kind() == reflect.Uint8 {
			out := reflect.MakeSlice(v.Type(), v.Len(), v.Len())
			reflect.Copy(out, v)
			return out
		}
		out := reflect.MakeSlice(v.Type(), v.Len(), v.Len())
		for i := 0; i < v.Len(); i++ {
			out.Index(i).Set(mapStrings(v.Index(i), f))
		}
		return out
	case reflect.Array:
		out := reflect.New(v.Type()).Elem()
		for i := 0; i < v.Len(); i++ {
			out.Index(i).Set(mapStrings(v.Index(i), f))
		}
		return out
	case reflect.Map:
		if v.IsNil() {
			return v
		}
		out := reflect.MakeMapWithSize(v.Type(), v.Len())
		it := v.MapRange()
		for it.Next() {
			out.SetMapIndex(mapStrings(it.Key(), f), mapStrings(it.Value(), f))
		}
		return out
	}
	return v
}

// WireCopy returns a deep copy of x with all strings wire-encoded.
func wireCopy(x interface{}, f func(string) string) interface{} {
	return mapStrings(reflect.ValueOf(x), f).Interface()
}
