package sim

// Worker: the entry point of the simulation test binary. One OS process
// per worker; the driver (cmd/simcheck) starts many with different seeds.

import (
	"crypto/sha256"
	"encoding/json"
	"flag"
	"fmt"
	"os"
	"path/filepath"
	"regexp"
	"runtime"
	"sort"
	"strings"
	"testing"
	"time"
	"verif/sim/yieldpt"

	"pgregory.net/rapid"
)

var (
	flagProp    = flag.String("verif.property", "", "property id (C01..C19) or self-test name")
	flagTier    = flag.String("verif.tier", "quick", "quick|thorough")
	flagSeed    = flag.Uint64("verif.seed", 1, "worker seed")
	flagBudget  = flag.Duration("verif.budget", 10*time.Second, "wall-clock budget of this worker")
	flagOut     = flag.String("verif.out", "", "output directory of this worker")
	flagReplay  = flag.String("verif.replay", "", "scenario file to replay")
	flagWorker  = flag.Int("verif.worker", 0, "worker index")
	flagWorkers = flag.Int("verif.workers", 1, "number of workers")
	flagChecks  = flag.Int("verif.checks", 25, "rapid checks per batch")
	flagMaxBat  = flag.Int("verif.maxbatches", 0, "stop after this many batches (0 = budget only)")
	flagFirst   = flag.Int("verif.firstbatch", 0, "index of the first batch")
	flagQuota   = flag.Int("verif.quota", 0, "batches that are run whatever the wall clock says (within -verif.ceiling); their statistics are written to stats_quota.json and the batches after them are counted apart")
	flagCeiling = flag.Duration("verif.ceiling", 0, "wall-clock ceiling of the quota part (0 = the budget)")
	flagDigests = flag.String("verif.digests", "", "write one digest line per simulated run to this file (determinism self-test)")
)

// Violation is what an oracle reports.
type Violation struct {
	Class  string
	Detail string
}

// Ctx is handed to a property's check function.
type Ctx struct {
	T      *testing.T
	H      Hooks
	Tier   string
	Stats  *Stats
	Worker int
	Nwork  int

	firstClass string
	lastFail   *Scenario
	replaying  bool
	enumCache  map[string]*enumResult
	// Known findings (never written at run time)
	Known []KnownFinding
}

// Prop is one registered property check.
type Prop struct {
	ID string
	// Check draws a scenario from rt and judges it. It reports a
	// violation through c.Fail.
	Check func(c *Ctx, rt *rapid.T)
	// Replay judges a saved scenario without drawing anything; it
	// returns the violation found, if any.
	Replay func(c *Ctx, sc *Scenario) *Violation
	// Deterministic prefix executed once by worker 0 before the random
	// batches (optional).
	Prefix func(c *Ctx) (*Scenario, *Violation)
	// Rule describes generation and the non-triviality rule (evidence).
	Rule string
	// Components says which parts ran real code and which a stub.
	Components map[string]string
}

var registry = map[string]*Prop{}

func Register(p *Prop) { registry[p.ID] = p }

// Stats is what a worker reports.
type Stats struct {
	Property    string             `json:"property"`
	Tier        string             `json:"tier"`
	Seed        uint64             `json:"seed"`
	Worker      int                `json:"worker"`
	Batches     int                `json:"batches"`
	BatchSeeds  []uint64           `json:"batch_seeds"`
	Evaluations int                `json:"evaluations"`
	CLIRuns     int                `json:"cli_runs"`
	Nontrivial  map[string]bool    `json:"nontrivial"`
	Sigs        map[string]bool    `json:"sigs"`
	FaultsFired map[string]int     `json:"faults_fired"`
	Probes      map[string]int     `json:"probes"`
	SimNS       int64              `json:"sim_ns"`
	Conformance map[string]int     `json:"conformance"`
	Samples     []json.RawMessage  `json:"samples"`
	Known       map[string]int     `json:"known_findings"`
	KnownNotes  map[string]string  `json:"known_notes"`
	Violations  []ViolationRecord  `json:"violations"`
	WallS       float64            `json:"wall_s"`
	Trouble     []string           `json:"trouble"`
	Exhaustive  map[string]bool    `json:"exhaustive,omitempty"`
	Extra       map[string]float64 `json:"extra,omitempty"`
	Rule        string             `json:"rule"`
	Components  map[string]string  `json:"components"`
}

type ViolationRecord struct {
	Class  string `json:"class"`
	Detail string `json:"detail"`
	File   string `json:"file"`
}

func newStats() *Stats {
	return &Stats{Nontrivial: map[string]bool{}, Sigs: map[string]bool{}, FaultsFired: map[string]int{}, Probes: map[string]int{},
		Conformance: map[string]int{}, Known: map[string]int{}, KnownNotes: map[string]string{}, Exhaustive: map[string]bool{}, Extra: map[string]float64{}}
}

func (s *Stats) Probe(name string) { s.Probes[name]++ }

var digestFile *os.File

var scratchNameRe = regexp.MustCompile(`vsim-[0-9]+`)

func (s *Stats) AddResult(r *Result) {
	s.CLIRuns++
	if digestFile != nil {
		h := sha256.New()
		// the scratch directory has a random name; it may appear in messages
		norm := func(b []byte) []byte { return scratchNameRe.ReplaceAll(b, []byte("vsim-X")) }
		fmt.Fprintf(h, "%s|%s|%v|%v|%q|%q|", r.Sig, norm([]byte(r.Err)), r.Hang, r.Panic != "", norm(r.Stdout), norm(r.Stderr))
		for _, e := range r.Events {
			fmt.Fprintf(h, "%d:%d:%s:%s:%d;", e.Seq, e.TNS, e.Actor, e.Ev, e.N)
		}
		fmt.Fprintf(digestFile, "%x %d events, sim %d ns\n", h.Sum(nil)[:12], len(r.Events), r.SimNS)
		if os.Getenv("VERIF_DIGEST_VERBOSE") != "" {
			fmt.Fprintf(digestFile, "  sig=%s err=%q hang=%v stdout=%dB stderr=%q\n", r.Sig, r.Err, r.Hang, len(r.Stdout), firstBytes(r.Stderr, 300))
			for _, e := range r.Events {
				fmt.Fprintf(digestFile, "  %d t=%d %s %s %d\n", e.Seq, e.TNS, e.Actor, e.Ev, e.N)
			}
		}
	}
	s.SimNS += r.SimNS
	if r.Sig != "" {
		s.Sigs[r.Sig] = true
	}
	if r.Run != nil {
		for k, v := range r.Run.FaultsFired {
			s.FaultsFired[k] += v
		}
		for _, u := range r.Run.Unmodelled {
			s.Probes["stub-ignored-an-option-it-does-not-model: "+u]++
		}
	}
	if r.Leaked {
		s.Probes["goroutines-left-blocked-after-main"]++
	}
}

func (s *Stats) Sample(v interface{}) {
	if len(s.Samples) >= 3 {
		return
	}
	b, err := json.Marshal(v)
	if err == nil {
		if len(b) > 6000 {
			b, _ = json.Marshal(map[string]interface{}{"truncated_sample_prefix": string(b[:6000])})
		}
		s.Samples = append(s.Samples, b)
	}
}

func splitmix64(x uint64) uint64 {
	x += 0x9e3779b97f4a7c15
	z := x
	z = (z ^ (z >> 30)) * 0xbf58476d1ce4e5b9
	z = (z ^ (z >> 27)) * 0x94d049bb133111eb
	return z ^ (z >> 31)
}

// Fail reports a violation for the scenario (called by oracles). If a
// known finding covers it, it is counted and not reported.
func (c *Ctx) Fail(rt *rapid.T, sc *Scenario, class, detail string) {
	if kf := c.matchKnown(sc, class, detail); kf != nil {
		c.Stats.Known[kf.ID]++
		if _, ok := c.Stats.KnownNotes[kf.ID]; !ok {
			c.Stats.KnownNotes[kf.ID] = detail
		}
		return
	}
	if c.firstClass == "" {
		c.firstClass = class
	} else if c.firstClass != class {
		// a different bug met while shrinking: not the one being minimised
		return
	}
	cp := *sc
	cp.Expect = &ExpectInfo{Class: class, Detail: detail}
	c.lastFail = &cp
	if rt != nil {
		rt.Fatalf("VIOLATION %s", class)
	}
}

// Main is called by the glue test.
func Main(t *testing.T, h Hooks) {
	if *flagProp == "" {
		t.Skip("no -verif.property given")
	}
	p, ok := registry[*flagProp]
	if !ok {
		t.Fatalf("unknown property %q", *flagProp)
	}
	out := *flagOut
	if out == "" {
		out, _ = os.MkdirTemp("", "vsim-out-")
	}
	os.MkdirAll(filepath.Join(out, "violations"), 0o755)
	if rg, err := lookReal(); err == nil && os.Getenv("VERIF_REAL_GIT") == "" {
		os.Setenv("VERIF_REAL_GIT", rg)
	}
	warmExitErrors()
	// One OS thread runs Go code: between two events at the simulated
	// boundary git-sizer's goroutines run to quiescence in the Go
	// scheduler's deterministic FIFO order (measured by the determinism
	// self-test, not assumed).
	runtime.GOMAXPROCS(1)

	CurrentFile = filepath.Join(out, "current.json")
	st := newStats()
	st.Property, st.Tier, st.Seed, st.Worker = p.ID, *flagTier, *flagSeed, *flagWorker
	st.Rule, st.Components = p.Rule, p.Components
	c := &Ctx{T: t, H: h, Tier: *flagTier, Stats: st, Worker: *flagWorker, Nwork: *flagWorkers}
	c.Known = loadKnown()
	HangHandler = func(sc *Scenario) {
		if *flagReplay != "" {
			// a hang with a live progress ticker cannot return through the bubble
			fmt.Fprintf(ProcessStdout, "REPLAY-VIOLATION %s/hang\nno progress possible before the fake-time watchdog (progress ticker alive)\n", p.ID)
			os.Exit(1)
		}
		cp := *sc
		cp.Expect = &ExpectInfo{Class: p.ID + "/hang", Detail: "no progress possible before the fake-time watchdog"}
		cp.Save(filepath.Join(out, "violations", "hang-"+sc.Hash()+".json"))
		st.Violations = append(st.Violations, ViolationRecord{Class: p.ID + "/hang", File: filepath.Join(out, "violations", "hang-"+sc.Hash()+".json")})
		writeStats(out, st)
		os.Exit(3)
	}

	if *flagDigests != "" {
		digestFile, _ = os.Create(*flagDigests)
		defer digestFile.Close()
	}
	start := time.Now()
	defer func() {
		st.WallS = time.Since(start).Seconds()
		writeStats(out, st)
	}()

	if *flagReplay != "" {
		sc, err := LoadScenario(*flagReplay)
		if err != nil {
			t.Fatalf("loading replay: %v", err)
		}
		c.replaying = true
		v := p.Replay(c, sc)
		if v != nil {
			if kf := c.matchKnown(sc, v.Class, v.Detail); kf != nil {
				fmt.Printf("REPLAY-KNOWN %s %s\n", kf.ID, v.Class)
				return
			}
			fmt.Printf("REPLAY-VIOLATION %s\n%s\n", v.Class, v.Detail)
			st.Violations = append(st.Violations, ViolationRecord{Class: v.Class, Detail: v.Detail, File: *flagReplay})
			t.Fail()
			return
		}
		fmt.Printf("REPLAY-CLEAN\n")
		return
	}

	saveFail := func() {
		sc := c.lastFail
		name := fmt.Sprintf("%s-%s.json", strings.ReplaceAll(sc.Expect.Class, "/", "_"), sc.Hash())
		path := filepath.Join(out, "violations", name)
		sc.Save(path)
		st.Violations = append(st.Violations, ViolationRecord{Class: sc.Expect.Class, Detail: sc.Expect.Detail, File: path})
	}

	if p.Prefix != nil && *flagWorker == 0 && *flagFirst == 0 {
		sc, v := p.Prefix(c)
		if v != nil {
			c.Fail(nil, sc, v.Class, v.Detail)
			if c.lastFail != nil {
				saveFail()
				t.Fail()
				return
			}
		}
	}

	// The first -verif.quota batches are the quota part: they are run whatever
	// the wall clock says (up to the ceiling), so that what they cover is a
	// function of the seed alone. At that boundary the statistics are written
	// out (stats_quota.json) and counting starts afresh: the batches that follow,
	// as many as the time budget allows, are the continuation.
	deadline := start.Add(*flagBudget)
	ceiling := deadline
	if *flagCeiling > 0 {
		ceiling = start.Add(*flagCeiling)
	}
	quotaEnd := *flagFirst + *flagQuota
	for batch := *flagFirst; *flagMaxBat == 0 || batch < *flagFirst+*flagMaxBat; batch++ {
		if batch < quotaEnd {
			if !time.Now().Before(ceiling) {
				break
			}
		} else {
			if *flagQuota > 0 && batch == quotaEnd {
				st.WallS = time.Since(start).Seconds()
				writeStatsAs(out, "stats_quota.json", st)
				nst := newStats()
				nst.Property, nst.Tier, nst.Seed, nst.Worker = st.Property, st.Tier, st.Seed, st.Worker
				nst.Rule, nst.Components = st.Rule, st.Components
				st = nst
				c.Stats = st
			}
			if !time.Now().Before(deadline) {
				break
			}
		}
		bs := splitmix64(*flagSeed ^ splitmix64(uint64(batch)+1))
		if bs == 0 {
			bs = 1
		}
		flag.Set("rapid.seed", fmt.Sprint(bs))
		flag.Set("rapid.checks", fmt.Sprint(*flagChecks))
		st.Batches++
		if len(st.BatchSeeds) < 64 {
			st.BatchSeeds = append(st.BatchSeeds, bs)
		}
		c.firstClass, c.lastFail = "", nil
		ok := t.Run(fmt.Sprintf("b%d", batch), rapid.MakeCheck(func(rt *rapid.T) {
			p.Check(c, rt)
		}))
		if !ok {
			if c.lastFail != nil {
				saveFail()
			} else {
				st.Trouble = append(st.Trouble, fmt.Sprintf("batch %d (rapid seed %d) failed without a recorded violation", batch, bs))
			}
			return
		}
	}
}

// yield counters are process-wide: each statistics file reports what was
// added since the one before it
var yieldBase [2]int64

func writeStats(out string, st *Stats) { writeStatsAs(out, "stats.json", st) }

func writeStatsAs(out, name string, st *Stats) {
	if n := int64(yieldpt.Passed.Load()); n > 0 {
		y := int64(yieldpt.Yielded.Load())
		st.Extra["yield_points_passed_inside_git-sizer_with_a_schedule_installed"] = float64(n - yieldBase[0])
		st.Extra["yields_injected_at_those_points"] = float64(y - yieldBase[1])
		if name != "stats.json" {
			yieldBase = [2]int64{n, y}
		}
	}
	b, _ := json.MarshalIndent(st, "", " ")
	os.WriteFile(filepath.Join(out, name), b, 0o644)
}

func sortedKeys(m map[string]bool) []string {
	ks := make([]string, 0, len(m))
	for k := range m {
		ks = append(ks, k)
	}
	sort.Strings(ks)
	return ks
}

// HangHandler is called (inside the bubble) when the watchdog fires.
var HangHandler func(sc *Scenario)
