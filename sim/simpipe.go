package sim

// An in-memory pipe whose capacity, short reads and blocking behaviour are
// decided by the plan. All blocking is on sync.Cond, which is durably
// blocking inside a synctest bubble.

import (
	"io"
	"os"
	"sync"
	"syscall"
	"verif/sim/yieldpt"
)

type simPipe struct {
	mu      sync.Mutex
	cond    *sync.Cond
	buf     []byte
	capac   int // 0 rendezvous, <0 unbounded
	wclosed bool
	rclosed bool

	readChunks []int
	ri         int
	total      int // bytes ever written

	// yields: yields (yieldpt.Yield) before each Read / Write, from the
	// plan. At GOMAXPROCS=1 this deterministically changes which of
	// git-sizer's own runnable goroutines (pipeline stages, feeders, main
	// loop) gets the processor next.
	yields []int
	yi     int
}

var noYields = os.Getenv("VERIF_NO_YIELDS") != ""

func (p *simPipe) yield() {
	if len(p.yields) == 0 || noYields {
		return
	}
	p.mu.Lock()
	n := p.yields[p.yi%len(p.yields)]
	p.yi++
	p.mu.Unlock()
	for i := 0; i < n; i++ {
		yieldpt.Yield()
	}
}

func newSimPipe(capac int, readChunks []int) *simPipe {
	p := &simPipe{capac: capac, readChunks: readChunks}
	p.cond = sync.NewCond(&p.mu)
	return p
}

// errEPIPE is what a simulated process gets when it writes to a pipe
// whose reader has gone away.
var errEPIPE = syscall.EPIPE

// Write blocks according to the pipe capacity. It returns errEPIPE if the
// read side is closed.
func (p *simPipe) Write(b []byte) (int, error) {
	p.yield()
	p.mu.Lock()
	defer p.mu.Unlock()
	n := 0
	for len(b) > 0 {
		if p.rclosed {
			return n, errEPIPE
		}
		if p.wclosed {
			return n, io.ErrClosedPipe
		}
		space := len(b)
		if p.capac > 0 {
			space = p.capac - len(p.buf)
			if space <= 0 {
				p.cond.Wait()
				continue
			}
			if space > len(b) {
				space = len(b)
			}
		}
		p.buf = append(p.buf, b[:space]...)
		p.total += space
		b = b[space:]
		n += space
		p.cond.Broadcast()
	}
	if p.capac == 0 {
		// rendezvous: wait until consumed (or reader gone)
		for len(p.buf) > 0 && !p.rclosed {
			p.cond.Wait()
		}
	}
	return n, nil
}

func (p *simPipe) CloseWrite() {
	p.mu.Lock()
	p.wclosed = true
	p.cond.Broadcast()
	p.mu.Unlock()
}

func (p *simPipe) CloseRead() {
	p.mu.Lock()
	p.rclosed = true
	p.buf = nil
	p.cond.Broadcast()
	p.mu.Unlock()
}

func (p *simPipe) Read(b []byte) (int, error) {
	p.yield()
	p.mu.Lock()
	defer p.mu.Unlock()
	for len(p.buf) == 0 {
		if p.rclosed {
			return 0, io.ErrClosedPipe
		}
		if p.wclosed {
			return 0, io.EOF
		}
		p.cond.Wait()
	}
	if len(b) == 0 {
		return 0, nil
	}
	n := len(p.buf)
	if n > len(b) {
		n = len(b)
	}
	if len(p.readChunks) > 0 {
		c := p.readChunks[p.ri%len(p.readChunks)]
		p.ri++
		if c > 0 && c < n {
			n = c
		}
	}
	copy(b, p.buf[:n])
	p.buf = p.buf[n:]
	p.cond.Broadcast()
	return n, nil
}

// readEnd is the io.ReadCloser handed to git-sizer.
type readEnd struct{ p *simPipe }

func (r readEnd) Read(b []byte) (int, error) { return r.p.Read(b) }
func (r readEnd) Close() error               { r.p.CloseRead(); return nil }
