package sim

// A lenient but sound parser for git-sizer's tabular output.

import (
	"fmt"
	"regexp"
	"strings"
)

type TableRow struct {
	Depth   int      // 0 = top-level section header
	Section string   // top-level section the row belongs to
	Path    []string // enclosing subsection headers below the top section
	Name    string   // name field without indent prefix, spacer and (for items) citation
	RawName string   // name field without indent prefix, right-trimmed, citation included
	Cite    int      // trailing [n] of the name field (0 = none)
	Value   string   // numeral ("" for headers)
	Unit    string
	Concern string
	IsItem  bool
}

type Table struct {
	NoProblems bool
	Rows       []TableRow
	Footnotes  []string // text of footnote i+1
	Raw        string
}

var citeRe = regexp.MustCompile(`\[(\d+)\]$`)

const noProblems = "No problems above the current threshold were found\n"

func ParseTable(out []byte) (*Table, error) {
	s := string(out)
	t := &Table{Raw: s}
	if s == noProblems {
		t.NoProblems = true
		return t, nil
	}
	lines := strings.Split(s, "\n")
	if len(lines) < 3 {
		return nil, fmt.Errorf("table too short")
	}
	if lines[0] != "| Name                         | Value     | Level of concern               |" {
		return nil, fmt.Errorf("unexpected header line %q", lines[0])
	}
	if lines[1] != "| ---------------------------- | --------- | ------------------------------ |" {
		return nil, fmt.Errorf("unexpected separator line %q", lines[1])
	}
	i := 2
	section := ""
	var path []string // index = depth-1
	for ; i < len(lines); i++ {
		l := lines[i]
		if l == "" {
			break
		}
		if !strings.HasPrefix(l, "| ") || !strings.HasSuffix(l, " |") {
			return nil, fmt.Errorf("line %d is not a table row: %q", i+1, l)
		}
		body := l[2 : len(l)-2]
		k := strings.LastIndex(body, " | ")
		if k < 0 {
			return nil, fmt.Errorf("line %d: missing column separator: %q", i+1, l)
		}
		concern := body[k+3:]
		body = body[:k]
		k = strings.LastIndex(body, " | ")
		if k < 0 {
			return nil, fmt.Errorf("line %d: missing column separator: %q", i+1, l)
		}
		value := body[k+3:]
		name := body[:k]
		if len(concern) < 30 || strings.Trim(concern, "*! ") != "" {
			return nil, fmt.Errorf("line %d: bad concern column %q", i+1, concern)
		}
		if strings.TrimSpace(name) == "" && strings.TrimSpace(value) == "" && strings.TrimSpace(concern) == "" {
			continue // blank separator row
		}
		if len(name) < 28 {
			return nil, fmt.Errorf("line %d: name column narrower than 28: %q", i+1, name)
		}
		// indent
		depth := 0
		rest := name
		sp := 0
		for sp < len(rest) && rest[sp] == ' ' {
			sp++
		}
		if strings.HasPrefix(rest[sp:], "* ") && sp%2 == 0 {
			depth = sp/2 + 1
			rest = rest[sp+2:]
		}
		row := TableRow{Depth: depth, Concern: strings.TrimRight(concern, " ")}
		row.RawName = strings.TrimRight(rest, " ")
		row.Name = row.RawName
		v := value
		// "%5s %-3s"
		vt := strings.TrimSpace(v)
		if vt != "" {
			row.IsItem = true
			f := strings.Fields(vt)
			row.Value = f[0]
			if len(f) > 1 {
				row.Unit = f[1]
			}
			if len(f) > 2 {
				return nil, fmt.Errorf("line %d: bad value column %q", i+1, value)
			}
			if m := citeRe.FindStringSubmatch(row.RawName); m != nil {
				fmt.Sscanf(m[1], "%d", &row.Cite)
				row.Name = strings.TrimRight(row.RawName[:len(row.RawName)-len(m[0])], " ")
			}
		}
		if depth == 0 {
			if row.IsItem {
				return nil, fmt.Errorf("line %d: item at top level: %q", i+1, l)
			}
			section = row.Name
			path = nil
			row.Section = section
			t.Rows = append(t.Rows, row)
			continue
		}
		if depth-1 > len(path) {
			// deeper than the known headers: allowed for indented items (refgroups)
			for len(path) < depth-1 {
				path = append(path, "")
			}
		}
		path = path[:depth-1]
		row.Section = section
		row.Path = append([]string(nil), path...)
		if !row.IsItem {
			path = append(path, row.Name)
		}
		t.Rows = append(t.Rows, row)
	}
	// footnotes
	if i < len(lines) {
		rest := lines[i+1:]
		// drop the final empty string produced by the trailing LF
		if len(rest) > 0 && rest[len(rest)-1] == "" {
			rest = rest[:len(rest)-1]
		}
		next := 1
		for _, l := range rest {
			pfx := fmt.Sprintf("%-4s ", fmt.Sprintf("[%d]", next))
			if strings.HasPrefix(l, pfx) {
				t.Footnotes = append(t.Footnotes, l[len(pfx):])
				next++
				continue
			}
			if len(t.Footnotes) == 0 {
				return nil, fmt.Errorf("text after the table that is not footnote [1]: %q", l)
			}
			// continuation of a footnote whose text contains a newline
			t.Footnotes[len(t.Footnotes)-1] += "\n" + l
		}
	}
	return t, nil
}

// MetricRows: the labelled metric rows of the table, keyed "Section/Sub/Label".
func (t *Table) Key(r TableRow) string {
	parts := []string{r.Section}
	for _, p := range r.Path {
		if p != "" {
			parts = append(parts, p)
		}
	}
	parts = append(parts, r.Name)
	return strings.Join(parts, "/")
}
