package sim

// Generators for invocations (command lines) and plans.

import (
	"fmt"
	"strings"
)

type InvOpts struct {
	RefOpts    bool // generate reference-selection options
	Roots      bool // generate ROOT arguments
	Regexps    bool
	Groups     bool
	Format     string // "json1" | "json2" | "table" | "" (random)
	Names      string // "" random
	CwdKinds   []string
	Progress   bool // allow --progress
	MaxRefOpts int
}

var regexpPool = []string{
	`refs/heads/.*`, `refs/tags/.*`, `.*`, `refs/(heads|tags)/.*`, `refs/heads/ma.*`, `.*/feature/.*`, `refs/tags/release-\d+\.\d+\.\d+`,
	`refs/[^/]+/[^/]+`, `refs/heads/(main|dev)`, `.*main`, `refs/.*x`, `refs/heads/[a-m].*`, `refs/stash`, `refs/remotes/.+/.+`,
}

// GenRefOpts draws a sequence of reference options for the world.
func GenRefOpts(g G, w *World, gm *GroupModel, o InvOpts) []RefOpt {
	n := 0
	if o.RefOpts {
		mx := o.MaxRefOpts
		if mx == 0 {
			mx = 4
		}
		if g.Chance(2, 3, "hasrefopts") {
			n = g.Int(1, mx, "nrefopts")
		}
	}
	var names []string
	for _, r := range w.AllRefs() {
		names = append(names, r.Name)
	}
	var out []RefOpt
	for i := 0; i < n; i++ {
		inc := g.Bool("inc")
		flag := "--exclude"
		if inc {
			flag = "--include"
		}
		k := g.Pick(10, "optkind")
		switch {
		case k <= 2: // built-in flag
			names5 := []string{"branches", "tags", "remotes", "notes", "stash"}
			pats := []string{"refs/heads", "refs/tags", "refs/remotes", "refs/notes", "refs/stash"}
			j := g.Pick(5, "builtin")
			f := "--" + names5[j]
			if !inc {
				f = "--no-" + names5[j]
			}
			ro := RefOpt{Args: []string{f}, Include: inc, Kind: "prefix", Pattern: pats[j]}
			if j == 4 {
				ro.Kind = "regexp"
			}
			out = append(out, ro)
		case k <= 5 || (!o.Regexps && !o.Groups): // prefix cut from an existing name or a fixed pool
			var p string
			if len(names) > 0 && g.Chance(3, 4, "cutname") {
				nm := names[g.Pick(len(names), "cutfrom")]
				cut := g.Int(0, len(nm), "cutat")
				if g.Bool("cutatslash") {
					// move to a component boundary
					if j := strings.LastIndexByte(nm[:cut], '/'); j >= 0 {
						cut = j
						if g.Bool("keepslash") {
							cut = j + 1
						}
					}
				}
				p = nm[:cut]
			} else {
				p = g.PickStr([]string{"refs/heads", "refs/heads/", "refs/tags", "refs/", "refs", "refs/foo", "refs/foo/", "refs/he", "", "refs/heads/feature", "refs/remotes/origin", "r"}, "fixedprefix")
			}
			if strings.HasPrefix(p, "@") || (len(p) >= 2 && strings.HasPrefix(p, "/") && strings.HasSuffix(p, "/")) || strings.HasPrefix(p, "-") {
				p = "refs/" + p
			}
			args := []string{flag, p}
			if g.Bool("eqform") {
				args = []string{flag + "=" + p}
			}
			out = append(out, RefOpt{Args: args, Include: inc, Kind: "prefix", Pattern: p})
		case k <= 7 && o.Regexps:
			re := g.PickStr(regexpPool, "regexp")
			var args []string
			if g.Chance(1, 4, "deprecatedre") {
				args = []string{flag + "-regexp", re}
			} else {
				args = []string{flag, "/" + re + "/"}
			}
			out = append(out, RefOpt{Args: args, Include: inc, Kind: "regexp", Pattern: re})
		case o.Groups && gm != nil:
			var syms []string
			for _, s := range gm.Order {
				if s != "" {
					syms = append(syms, s)
				}
			}
			s := syms[g.Pick(len(syms), "group")]
			if inc && g.Chance(1, 4, "deprecatedgroup") {
				out = append(out, RefOpt{Args: []string{"--refgroup", s}, Include: true, Kind: "group", Pattern: s})
			} else {
				out = append(out, RefOpt{Args: []string{flag, "@" + s}, Include: inc, Kind: "group", Pattern: s})
			}
		default:
			out = append(out, RefOpt{Args: []string{flag, "refs/heads"}, Include: inc, Kind: "prefix", Pattern: "refs/heads"})
		}
	}
	return out
}

// GenRoots draws ROOT arguments whose resolution the model can compute.
func GenRoots(g G, w *World) []RootArg {
	n := 0
	if g.Chance(1, 2, "hasroots") {
		n = g.Int(1, 3, "nroots")
	}
	var stored []*Object
	for _, o := range w.Objects {
		if o.Stored && !o.Missing {
			stored = append(stored, o)
		}
	}
	var out []RootArg
	for i := 0; i < n && len(stored) > 0; i++ {
		switch g.Pick(7, "rootkind") {
		case 0, 1: // raw oid
			o := stored[g.Pick(len(stored), "rootobj")]
			out = append(out, RootArg{Expr: o.ID, OID: o.ID})
		case 2: // full refname
			if len(w.Refs) > 0 {
				r := w.Refs[g.Pick(len(w.Refs), "rootref")]
				out = append(out, RootArg{Expr: r.Name, OID: r.OID})
			}
		case 3: // commit^{tree} / commit~n
			var cs []*Object
			for _, o := range stored {
				if o.Kind == KCommit {
					cs = append(cs, o)
				}
			}
			if len(cs) == 0 {
				continue
			}
			c := cs[g.Pick(len(cs), "rootcommit")]
			ci := DecodeCommit(c.Body)
			if g.Bool("peeltree") {
				out = append(out, RootArg{Expr: c.ID + "^{tree}", OID: ci.Tree})
			} else if len(ci.Parents) > 0 {
				k := g.Int(1, len(ci.Parents), "whichparent")
				out = append(out, RootArg{Expr: fmt.Sprintf("%s^%d", c.ID, k), OID: ci.Parents[k-1]})
			} else {
				out = append(out, RootArg{Expr: c.ID + "^0", OID: c.ID})
			}
		case 4: // tree:path
			var ts []*Object
			for _, o := range stored {
				if o.Kind == KTree {
					ts = append(ts, o)
				}
			}
			if len(ts) == 0 {
				continue
			}
			t := ts[g.Pick(len(ts), "roottree")]
			es, _ := DecodeTree(t.Body)
			var ok []TreeEntry
			for _, e := range es {
				if !e.IsGitlink() && len(e.Name) < 1000 {
					ok = append(ok, e)
				}
			}
			if len(ok) == 0 {
				out = append(out, RootArg{Expr: t.ID, OID: t.ID})
				continue
			}
			e := ok[g.Pick(len(ok), "rootentry")]
			out = append(out, RootArg{Expr: t.ID + ":" + e.Name, OID: e.OID})
		case 5: // peeled tag
			var ts []*Object
			for _, o := range stored {
				if o.Kind == KTag {
					ts = append(ts, o)
				}
			}
			if len(ts) == 0 {
				continue
			}
			t := ts[g.Pick(len(ts), "roottag")]
			x := t
			for x != nil && x.Kind == KTag {
				x = w.Get(DecodeTag(x.Body).Object)
			}
			if x != nil {
				out = append(out, RootArg{Expr: t.ID + "^{}", OID: x.ID})
			}
		case 6: // <tree-ish>: with an empty path (a commit, tree or tag followed by a bare colon)
			var ts []*Object
			for _, o := range stored {
				if o.Kind == KCommit || o.Kind == KTree || o.Kind == KTag {
					ts = append(ts, o)
				}
			}
			if len(ts) == 0 {
				continue
			}
			x := ts[g.Pick(len(ts), "rootcolon")]
			start := x
			for x != nil && x.Kind == KTag {
				x = w.Get(DecodeTag(x.Body).Object)
			}
			if x != nil && x.Kind == KCommit {
				x = w.Get(DecodeCommit(x.Body).Tree)
			}
			if x != nil && x.Kind == KTree {
				out = append(out, RootArg{Expr: start.ID + ":", OID: x.ID})
			}
		}
	}
	return out
}

// GenPeerPlan draws the schedule of one simulated peer.
func GenPeerPlan(g G, kind string, adversarial bool) *PeerPlan {
	p := &PeerPlan{PipeCap: -1}
	if !g.Chance(3, 4, kind+"perturb") {
		return p
	}
	switch g.Pick(5, kind+"cap") {
	case 0:
		p.PipeCap = 0
	case 1:
		p.PipeCap = g.Int(1, 64, kind+"smallcap")
	case 2:
		p.PipeCap = 4096
	case 3:
		p.PipeCap = 65536
	}
	switch g.Pick(5, kind+"chunking") {
	case 0:
		p.Chunks = []int{1}
	case 1:
		p.Chunks = g.Ints(6, 1, 64, kind+"chunks")
	case 2:
		p.Chunks = []int{41, 0}
	case 3:
		p.Chunks = g.Ints(4, 0, 5000, kind+"bigchunks")
	}
	if g.Chance(1, 2, kind+"readchunks") {
		p.ReadChunks = g.Ints(4, 0, 50, kind+"rchunks")
	}
	if g.Chance(1, 3, kind+"yields") {
		p.Yields = g.Ints(6, 0, 3, kind+"yieldcounts")
	}
	if g.Chance(1, 2, kind+"delays") {
		p.Delays = g.Ints(5, 0, 40_000_000, kind+"delayunits") // up to 320 ms fake
	}
	switch kind {
	case "rev-list":
		if adversarial || g.Chance(2, 3, "permcommits") {
			p.Order = g.Ints(12, 0, 7, "commitorder")
		}
		if adversarial || g.Chance(1, 2, "permobjs") {
			p.ObjOrder = g.Ints(12, 0, 7, "objorder")
		}
	case "batch", "batch-check":
		p.Flush = g.PickStr([]string{"eof", "each", "n:512", "n:64", "eof"}, kind+"flush")
	}
	return p
}

func GenPlan(g G, adversarial bool) Plan {
	pl := Plan{Peers: map[string]*PeerPlan{}}
	for _, k := range []string{"for-each-ref", "rev-list", "batch-check", "batch"} {
		pl.Peers[k] = GenPeerPlan(g, k, adversarial)
	}
	if g.Chance(1, 3, "goyields") {
		// a schedule for the yield points inside git-sizer itself: mostly
		// "go on", now and then "let the others run first"
		n := g.Int(2, 24, "ngoyields")
		for i := 0; i < n; i++ {
			y := 0
			if g.Chance(1, 3, "goyield") {
				y = g.Int(1, 3, "goyieldn")
			}
			pl.GoYields = append(pl.GoYields, y)
		}
	}
	return pl
}

// FormatArgs returns the output-format arguments.
func FormatArgs(g G, format string) []string {
	if format == "" {
		format = g.PickStr([]string{"json1", "json2", "table"}, "format")
	}
	switch format {
	case "json1":
		return [][]string{{"--json"}, {"-j"}, {"--json", "--json-version=1"}, {"--json-version", "1", "-j"}}[g.Pick(4, "j1form")]
	case "json2":
		return [][]string{{"--json", "--json-version=2"}, {"-j", "--json-version", "2"}}[g.Pick(2, "j2form")]
	}
	return nil
}

func NamesArgs(g G, names string) []string {
	if names == "" {
		names = g.PickStr([]string{"", "full", "hash", "none", "sha1", "sha-1"}, "names")
	}
	if names == "" || names == "default" {
		return nil
	}
	return []string{"--names=" + names}
}

// BuildInvocation assembles argv from its parts, interleaving options and
// ROOTs (pflag accepts interspersed arguments).
func BuildInvocation(g G, fixed []string, refopts []RefOpt, roots []RootArg, cwdKinds []string, w *World) Invocation {
	var args []string
	args = append(args, fixed...)
	rootsFirst := len(roots) > 0 && g.Chance(1, 3, "rootsfirst")
	if rootsFirst {
		for _, r := range roots {
			args = append(args, r.Expr)
		}
	}
	for _, ro := range refopts {
		args = append(args, ro.Args...)
	}
	if !rootsFirst {
		if len(roots) > 0 && g.Bool("dashdash") {
			args = append(args, "--")
		}
		for _, r := range roots {
			args = append(args, r.Expr)
		}
	}
	inv := Invocation{Args: args, Roots: roots, Cwd: "top"}
	if len(cwdKinds) > 0 {
		inv.Cwd = g.PickStr(cwdKinds, "cwd")
	}
	if inv.Cwd == "subdir" && w.Bare {
		inv.Cwd = "top"
	}
	if inv.Cwd == "elsewhere" {
		inv.Env = map[string]string{"GIT_DIR": "$GITDIR"}
	}
	return inv
}
