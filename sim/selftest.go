package sim

// Self-tests of the simulator: stub conformance against real git, and
// determinism of engine A (same scenario → same event log and output).

import (
	"bytes"
	"fmt"
	"sort"
	"strings"

	"pgregory.net/rapid"
)

func gitArgs(args ...string) []string {
	return append([]string{"--no-replace-objects", "-c", "advice.graftFileDeprecated=false"}, args...)
}

// conformanceOne compares the stub's canonical streams with real git's on
// a materialised world. It returns a description of the first difference.
func conformanceOne(c *Ctx, w *World, site *Site, roots []string) string {
	// for-each-ref
	out, err := site.Git(nil, gitArgs("for-each-ref", "--format=%(objectname) %(objecttype) %(objectsize) %(refname)")...)
	if err != nil {
		return "" // git refuses this world (e.g. ref to a missing object): nothing to compare
	}
	var b bytes.Buffer
	for _, r := range w.AllRefs() {
		o := w.Get(r.OID)
		fmt.Fprintf(&b, "%s %s %d %s\n", o.ID, o.Kind, o.Size(), r.Name)
	}
	c.Stats.Conformance["for-each-ref-lines"] += strings.Count(string(out), "\n")
	if !bytes.Equal(out, b.Bytes()) {
		return fmt.Sprintf("for-each-ref differs:\n git: %q\nstub: %q", out, b.String())
	}
	// rev-list
	stdin := strings.Join(roots, "\n")
	if len(roots) > 0 {
		stdin += "\n"
	}
	real, rerr := site.Git([]byte(stdin), gitArgs("rev-list", "--objects", "--stdin", "--date-order")...)
	lines, serr := w.RevList(roots, RevListFlags{Objects: true, Stdin: true, DateOrder: true}, nil, nil)
	if (rerr != nil) != (serr != nil) {
		return fmt.Sprintf("rev-list failure differs: git err=%v, stub err=%v", rerr, serr)
	}
	if rerr == nil {
		var sb strings.Builder
		for _, l := range lines {
			sb.WriteString(l)
			sb.WriteByte('\n')
		}
		c.Stats.Conformance["rev-list-lines"] += len(lines)
		if sb.String() != string(real) {
			// the order of non-commit objects is not relied upon by any
			// oracle; report exact differences separately from set ones
			a := strings.Split(strings.TrimRight(string(real), "\n"), "\n")
			bb := strings.Split(strings.TrimRight(sb.String(), "\n"), "\n")
			as, bs := append([]string(nil), a...), append([]string(nil), bb...)
			sort.Strings(as)
			sort.Strings(bs)
			if strings.Join(as, "\n") != strings.Join(bs, "\n") {
				return fmt.Sprintf("rev-list line multiset differs:\n git: %q\nstub: %q", real, sb.String())
			}
			return fmt.Sprintf("rev-list order differs:\n git: %q\nstub: %q", real, sb.String())
		}
		// without --date-order
		real2, rerr2 := site.Git([]byte(stdin), gitArgs("rev-list", "--objects", "--stdin")...)
		lines2, serr2 := w.RevList(roots, RevListFlags{Objects: true, Stdin: true}, nil, nil)
		if rerr2 == nil && serr2 == nil {
			var sb2 strings.Builder
			for _, l := range lines2 {
				sb2.WriteString(l)
				sb2.WriteByte('\n')
			}
			if sb2.String() != string(real2) {
				c.Stats.Probe("default-order-rev-list-differs-from-git")
			} else {
				c.Stats.Probe("default-order-rev-list-equal")
			}
		}
		// cat-file --batch-check and --batch on the listed objects
		var ids []string
		for _, l := range lines {
			ids = append(ids, l[:40])
		}
		in := strings.Join(ids, "\n") + "\n"
		if len(ids) > 0 {
			realc, err := site.Git([]byte(in), gitArgs("cat-file", "--batch-check", "--buffer")...)
			if err != nil {
				return "cat-file --batch-check failed: " + err.Error()
			}
			var sc bytes.Buffer
			for _, id := range ids {
				o := w.Get(id)
				fmt.Fprintf(&sc, "%s %s %d\n", o.ID, o.Kind, o.Size())
			}
			c.Stats.Conformance["batch-check-lines"] += len(ids)
			if !bytes.Equal(realc, sc.Bytes()) {
				return fmt.Sprintf("cat-file --batch-check differs:\n git: %q\nstub: %q", realc, sc.String())
			}
			realb, err := site.Git([]byte(in), gitArgs("cat-file", "--batch", "--buffer")...)
			if err != nil {
				return "cat-file --batch failed: " + err.Error()
			}
			var sb3 bytes.Buffer
			for _, id := range ids {
				o := w.Get(id)
				fmt.Fprintf(&sb3, "%s %s %d\n", o.ID, o.Kind, o.Size())
				sb3.Write(o.Body)
				sb3.WriteByte('\n')
			}
			c.Stats.Conformance["batch-objects"] += len(ids)
			if !bytes.Equal(realb, sb3.Bytes()) {
				return "cat-file --batch differs"
			}
		}
	}
	return ""
}

func init() {
	Register(&Prop{
		ID:   "conformance",
		Rule: "generated worlds (no declared sizes) materialised on disk; the stub's canonical streams for for-each-ref, rev-list --objects --stdin --date-order, cat-file --batch-check and --batch compared byte for byte with real git's; then the whole CLI run with simulated peers compared with the same run on real peers",
		Check: func(c *Ctx, rt *rapid.T) {
			g := G{rt}
			opts := DefaultGen
			opts.NameStyle = g.Pick(3, "namestyle")
			opts.ExoticRefNames = g.Bool("exoticrefs")
			w := GenWorld(g, opts)
			if g.Chance(1, 4, "packedrefs") {
				w.Layout = "packed-refs"
			}
			var roots []string
			for _, r := range w.Refs {
				if g.Chance(3, 4, "useref") {
					roots = append(roots, r.OID)
				}
			}
			for _, ra := range GenRoots(g, w) {
				roots = append(roots, ra.OID)
			}
			sc := &Scenario{Format: 1, Property: "conformance", Engine: "A", World: w, Params: map[string]interface{}{"roots": roots}}
			sc.Inv = Invocation{Args: []string{"--json", "-v"}, Cwd: "top"}
			if v := judgeConformance(c, sc); v != nil {
				c.Fail(rt, sc, v.Class, v.Detail)
			}
		},
		Replay: judgeConformance,
	})
}

func judgeConformance(c *Ctx, sc *Scenario) *Violation {
	var p struct {
		Roots []string `json:"roots"`
	}
	decodeParams(sc, &p)
	site, err := Materialise(sc.World)
	if err != nil {
		c.Stats.Trouble = append(c.Stats.Trouble, "materialise: "+err.Error())
		return nil
	}
	defer site.Close()
	c.Stats.Evaluations++
	if d := conformanceOne(c, sc.World, site, p.Roots); d != "" {
		cls := "conformance/stream"
		if strings.HasPrefix(d, "rev-list order differs") {
			cls = "conformance/rev-list-order"
		}
		return &Violation{cls, d}
	}
	// whole CLI: simulated peers (canonical plan) vs real peers
	for _, args := range [][]string{{"--json", "-v"}, {"-v", "--names=full"}} {
		a := *sc
		a.Inv.Args = args
		a.Plan = Plan{}
		ra := RunA(c.T, c.H, &a, site)
		b := a
		b.Plan = Plan{RealPeers: true}
		rb := RunA(c.T, c.H, &b, site)
		c.Stats.AddResult(ra)
		c.Stats.AddResult(rb)
		if ra.Panic != "" || rb.Panic != "" {
			return &Violation{"conformance/panic", ra.Panic + rb.Panic}
		}
		if ra.Failed != rb.Failed {
			return &Violation{"conformance/cli-failure-differs", fmt.Sprintf("sim: %q real: %q", ra.Err, rb.Err)}
		}
		if !bytes.Equal(ra.Stdout, rb.Stdout) {
			return &Violation{"conformance/cli-output-differs", fmt.Sprintf("args %v\nsim:\n%s\nreal:\n%s", args, ra.Stdout, rb.Stdout)}
		}
		c.Stats.Conformance["cli-runs-cross-checked"]++
	}
	c.Stats.Nontrivial[sc.Hash()] = true
	return nil
}

func init() {
	Register(&Prop{ID: "debug-mat", Check: func(c *Ctx, rt *rapid.T) {}, Replay: func(c *Ctx, sc *Scenario) *Violation {
		site, err := Materialise(sc.World)
		if err != nil {
			fmt.Println("ERR", err)
			return nil
		}
		fmt.Println("SITE", site.Root, site.GitDir)
		return nil
	}})
}
