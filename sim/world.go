// Package sim is the deterministic-simulation harness for git-sizer.
// See /verif/DESIGN.md. This file: the world model (an in-memory git
// repository) and its byte-exact serialisation.
package sim

import (
	"bytes"
	"crypto/sha1"
	"encoding/hex"
	"fmt"
	"sort"
	"strconv"
	"strings"
)

const (
	KBlob   = "blob"
	KTree   = "tree"
	KCommit = "commit"
	KTag    = "tag"
)

// EmptyTreeID is git's built-in empty tree, present in every repository
// whether stored or not.
const EmptyTreeID = "4b825dc642cb6eb9a060e54bf8d69288fbee4904"

// Object is one git object of the model.
type Object struct {
	ID   string `json:"id"`
	Kind string `json:"kind"`
	Body []byte `json:"body"`
	// DeclaredSize, when non-nil, is the size the simulated peers report
	// for this blob (the bytes on disk are a stand-in). Only legal with
	// simulated peers.
	DeclaredSize *uint64 `json:"declared_size,omitempty"`
	// Stored=false: the object is not written to disk (used for the
	// built-in empty tree and for gitlink targets, which are never
	// objects of the world at all and do not appear here).
	Stored bool `json:"stored"`
	// Missing=true: the object is removed from the object store (fault).
	Missing bool `json:"missing,omitempty"`
}

// Size is the object size as git reports it.
func (o *Object) Size() uint64 {
	if o.DeclaredSize != nil {
		return *o.DeclaredSize
	}
	return uint64(len(o.Body))
}

type Ref struct {
	Name string `json:"name"`
	OID  string `json:"oid"`
	// Symref: the reference is symbolic (stored as "ref: <Symref>"); OID is
	// the id its target resolves to, which is what git lists for it.
	Symref string `json:"symref,omitempty"`
}

// ConfigEntry is one `-c key=value` command-scope entry (GIT_CONFIG_COUNT).
type ConfigKV struct {
	Key   string `json:"k"`
	Value string `json:"v"`
}

type Config struct {
	System   string     `json:"system,omitempty"`
	Global   string     `json:"global,omitempty"`
	Local    string     `json:"local,omitempty"`
	Worktree string     `json:"worktree,omitempty"`
	Command  []ConfigKV `json:"command,omitempty"`
}

type Extras struct {
	Replace [][2]string `json:"replace,omitempty"` // from → to (refs/replace/<from> = to)
	Grafts  string      `json:"grafts,omitempty"`
	Shallow string      `json:"shallow,omitempty"`
	// Reflog / index noise is written by the materialiser when set.
	Noise bool `json:"noise,omitempty"`
}

type World struct {
	Objects []*Object `json:"objects"`
	Refs    []Ref     `json:"refs"`
	// Head is either "ref: refs/heads/x" or a 40-hex oid (detached).
	Head   string `json:"head"`
	Config Config `json:"config"`
	Layout string `json:"layout,omitempty"` // loose | packed | packed-refs | promisor (one pack with a .promisor marker) | bitmap (bitmapped pack of half the references' closure, rest loose)
	Bare   bool   `json:"bare,omitempty"`
	Extras Extras `json:"extras"`

	byID map[string]*Object
}

func (w *World) index() {
	if w.byID != nil && len(w.byID) >= len(w.Objects) {
		return
	}
	w.byID = make(map[string]*Object, len(w.Objects)+1)
	for _, o := range w.Objects {
		w.byID[o.ID] = o
	}
}

// Get returns the object with the given id. The built-in empty tree is
// always available.
func (w *World) Get(id string) *Object {
	w.index()
	if o, ok := w.byID[id]; ok {
		return o
	}
	if id == EmptyTreeID {
		return &Object{ID: EmptyTreeID, Kind: KTree, Stored: false}
	}
	return nil
}

// Add adds an object (deduplicating by id) and returns the canonical
// instance.
func (w *World) Add(o *Object) *Object {
	w.index()
	if old, ok := w.byID[o.ID]; ok {
		return old
	}
	w.Objects = append(w.Objects, o)
	w.byID[o.ID] = o
	return o
}

func HashObject(kind string, body []byte) string {
	h := sha1.New()
	fmt.Fprintf(h, "%s %d\x00", kind, len(body))
	h.Write(body)
	return hex.EncodeToString(h.Sum(nil))
}

func NewObject(kind string, body []byte) *Object {
	return &Object{ID: HashObject(kind, body), Kind: kind, Body: body, Stored: true}
}

// ---- trees ----

type TreeEntry struct {
	Mode uint32 // e.g. 0o100644
	Name string
	OID  string
}

func (e TreeEntry) IsTree() bool    { return e.Mode&0o170000 == 0o040000 }
func (e TreeEntry) IsGitlink() bool { return e.Mode&0o170000 == 0o160000 }
func (e TreeEntry) IsSymlink() bool { return e.Mode&0o170000 == 0o120000 }

// sortKey implements git's tree ordering: directories compare as name+"/".
func (e TreeEntry) sortKey() string {
	if e.IsTree() {
		return e.Name + "/"
	}
	return e.Name
}

func SortTreeEntries(es []TreeEntry) {
	sort.SliceStable(es, func(i, j int) bool { return es[i].sortKey() < es[j].sortKey() })
}

func EncodeTree(es []TreeEntry) []byte {
	var b bytes.Buffer
	for _, e := range es {
		b.WriteString(strconv.FormatUint(uint64(e.Mode), 8))
		b.WriteByte(' ')
		b.WriteString(e.Name)
		b.WriteByte(0)
		raw, err := hex.DecodeString(e.OID)
		if err != nil || len(raw) != 20 {
			panic("bad oid in tree entry: " + e.OID)
		}
		b.Write(raw)
	}
	return b.Bytes()
}

// DecodeTree is the model's own tree parser (independent of git-sizer's).
func DecodeTree(body []byte) ([]TreeEntry, error) {
	var es []TreeEntry
	for len(body) > 0 {
		sp := bytes.IndexByte(body, ' ')
		if sp < 0 {
			return nil, fmt.Errorf("no SP")
		}
		m, err := strconv.ParseUint(string(body[:sp]), 8, 32)
		if err != nil {
			return nil, err
		}
		body = body[sp+1:]
		nul := bytes.IndexByte(body, 0)
		if nul < 0 {
			return nil, fmt.Errorf("no NUL")
		}
		name := string(body[:nul])
		body = body[nul+1:]
		if len(body) < 20 {
			return nil, fmt.Errorf("short oid")
		}
		es = append(es, TreeEntry{Mode: uint32(m), Name: name, OID: hex.EncodeToString(body[:20])})
		body = body[20:]
	}
	return es, nil
}

// ---- commits and tags ----

type CommitSpec struct {
	Tree      string
	Parents   []string
	Author    string // full "Name <mail> secs tz"
	Committer string
	// Extra are additional header blocks placed after committer, each is
	// a complete "key value" possibly with embedded "\n" (continuation
	// lines get the leading space added by EncodeCommit).
	Extra   []Header
	Message string // "" → no message and no blank line when NoBlank
	NoBlank bool
}

type Header struct {
	Key   string
	Value string // may contain "\n"; each following line is prefixed by SP
}

func encodeHeader(b *bytes.Buffer, h Header) {
	b.WriteString(h.Key)
	b.WriteByte(' ')
	b.WriteString(strings.ReplaceAll(h.Value, "\n", "\n "))
	b.WriteByte('\n')
}

func EncodeCommit(c CommitSpec) []byte {
	var b bytes.Buffer
	fmt.Fprintf(&b, "tree %s\n", c.Tree)
	for _, p := range c.Parents {
		fmt.Fprintf(&b, "parent %s\n", p)
	}
	fmt.Fprintf(&b, "author %s\n", c.Author)
	fmt.Fprintf(&b, "committer %s\n", c.Committer)
	for _, h := range c.Extra {
		encodeHeader(&b, h)
	}
	if !c.NoBlank {
		b.WriteByte('\n')
		b.WriteString(c.Message)
	}
	return b.Bytes()
}

type TagSpec struct {
	Object  string
	Type    string
	Tag     string
	Tagger  string // "" → no tagger line
	Extra   []Header
	Message string
	NoBlank bool
}

func EncodeTag(t TagSpec) []byte {
	var b bytes.Buffer
	fmt.Fprintf(&b, "object %s\n", t.Object)
	fmt.Fprintf(&b, "type %s\n", t.Type)
	fmt.Fprintf(&b, "tag %s\n", t.Tag)
	if t.Tagger != "" {
		fmt.Fprintf(&b, "tagger %s\n", t.Tagger)
	}
	for _, h := range t.Extra {
		encodeHeader(&b, h)
	}
	if !t.NoBlank {
		b.WriteByte('\n')
		b.WriteString(t.Message)
	}
	return b.Bytes()
}

// headerLines returns the (key, value) pairs of the header block of a
// commit or tag as git reads them: the block ends at the first empty
// line; a line starting with SP continues the previous header.
func headerLines(body []byte) [][2]string {
	var out [][2]string
	for len(body) > 0 {
		nl := bytes.IndexByte(body, '\n')
		var line []byte
		if nl < 0 {
			line, body = body, nil
		} else {
			line, body = body[:nl], body[nl+1:]
		}
		if len(line) == 0 {
			break
		}
		if line[0] == ' ' {
			continue // continuation line
		}
		sp := bytes.IndexByte(line, ' ')
		if sp < 0 {
			out = append(out, [2]string{string(line), ""})
			continue
		}
		out = append(out, [2]string{string(line[:sp]), string(line[sp+1:])})
	}
	return out
}

type CommitInfo struct {
	Tree          string
	Parents       []string
	CommitterDate int64
}

// gitCommitDate mimics git's parse_commit_date(): the date is read from a
// "committer" line that directly follows the "author" line, and is 0 when
// that line's LF is the last byte of the object (a quirk that matters for
// the enumeration order of commits without message and blank line).
func gitCommitDate(body []byte) int64 {
	i := bytes.Index(body, []byte("\nauthor "))
	if i < 0 {
		return 0
	}
	rest := body[i+1:]
	nl := bytes.IndexByte(rest, '\n')
	if nl < 0 {
		return 0
	}
	rest = rest[nl+1:]
	if !bytes.HasPrefix(rest, []byte("committer")) {
		return 0
	}
	nl = bytes.IndexByte(rest, '\n')
	if nl < 0 || nl+1 >= len(rest) {
		return 0
	}
	return parseIdentDate(string(rest[:nl]))
}

func DecodeCommit(body []byte) (ci CommitInfo) {
	defer func() { ci.CommitterDate = gitCommitDate(body) }()
	for _, kv := range headerLines(body) {
		switch kv[0] {
		case "tree":
			if ci.Tree == "" {
				ci.Tree = kv[1]
			}
		case "parent":
			ci.Parents = append(ci.Parents, kv[1])
		case "committer":
			ci.CommitterDate = parseIdentDate(kv[1])
		}
	}
	return ci
}

func parseIdentDate(ident string) int64 {
	gt := strings.LastIndexByte(ident, '>')
	if gt < 0 {
		return 0
	}
	f := strings.Fields(ident[gt+1:])
	if len(f) == 0 {
		return 0
	}
	n, err := strconv.ParseInt(f[0], 10, 64)
	if err != nil {
		return 0
	}
	return n
}

type TagInfo struct {
	Object string
	Type   string
}

func DecodeTag(body []byte) TagInfo {
	var ti TagInfo
	for _, kv := range headerLines(body) {
		switch kv[0] {
		case "object":
			if ti.Object == "" {
				ti.Object = kv[1]
			}
		case "type":
			if ti.Type == "" {
				ti.Type = kv[1]
			}
		}
	}
	return ti
}

// Clone returns a deep copy of the world (objects are copied shallowly:
// bodies are immutable by convention).
func (w *World) Clone() *World {
	c := *w
	c.byID = nil
	c.Objects = make([]*Object, len(w.Objects))
	for i, o := range w.Objects {
		oc := *o
		c.Objects[i] = &oc
	}
	c.Refs = append([]Ref(nil), w.Refs...)
	c.Config.Command = append([]ConfigKV(nil), w.Config.Command...)
	c.Extras.Replace = append([][2]string(nil), w.Extras.Replace...)
	return &c
}
