package sim

// C01 (census), C02 (maxima), C03 (depths), C04 (checkout metrics), C05
// (saturation): CLI runs on generated worlds against the reference model.

import (
	"fmt"
	"os"
	"path/filepath"
	"reflect"
	"sort"
	"strings"

	"pgregory.net/rapid"
)

// walkedRoots computes the oids the model says are walked.
func walkedRoots(w *World, sel *Selection, roots []RootArg) []string {
	var out []string
	for _, r := range w.AllRefs() {
		if sel.Walked(r.Name) {
			out = append(out, r.OID)
		}
	}
	for _, r := range roots {
		out = append(out, r.OID)
	}
	return out
}

// groupModelFor builds the refgroup model from the site's real config.
func groupModelFor(site *Site) (*GroupModel, []byte, error) {
	out, err := site.Git(nil, "--no-replace-objects", "-c", "advice.graftFileDeprecated=false", "config", "--list", "-z")
	if err != nil {
		return nil, nil, err
	}
	gm := NewGroupModel()
	gm.AddConfig(ParseConfigListZ(out))
	return gm, out, nil
}

type numericParams struct {
	RefOpts []RefOpt `json:"refopts"`
}

type numericSpec struct {
	prop       string
	fields     []string
	gen        GenOpts
	inv        InvOpts
	nontrivial func(w *World, ex *Expected, sel *Selection) bool
	rule       string
	feed       bool // also drive sizes.Graph directly in every delivery order
}

func genNumericScenario(c *Ctx, rt *rapid.T, sp *numericSpec) *Scenario {
	g := G{rt}
	gen := sp.gen
	if sp.prop == "C02" && g.Rare(1, 4, "hugesizes") {
		// maxima next to their 32-bit capacity: declared sizes around 2^32, 2^33, 2^63
		// (only the simulated peers can serve these; no real-git cross-run for such worlds)
		gen.HugeSizes = true
	}
	w := GenWorld(g, gen)
	if sp.prop == "C01" && g.Rare(1, 10, "manyrefs") {
		// more roots than any batch or buffer between the reference listing
		// and rev-list's stdin holds, each leading to a commit of its own
		n := g.Int(66, 200, "nmanyrefs")
		if !refConflicts(refSet(w), "refs/heads/many") {
			for i := 0; i < n; i++ {
				cs := CommitSpec{Tree: EmptyTreeID, Author: ident("A", int64(1100000000+i), "+0000"), Committer: ident("C", int64(1100000000+i), "+0000"), Message: fmt.Sprintf("many %d\n", i)}
				co := w.Add(NewObject(KCommit, EncodeCommit(cs)))
				w.Refs = append(w.Refs, Ref{Name: fmt.Sprintf("refs/heads/many/%04d", i), OID: co.ID})
			}
		}
	}
	gm := NewGroupModel()
	refopts := GenRefOpts(g, w, gm, sp.inv)
	var roots []RootArg
	if sp.inv.Roots {
		roots = GenRoots(g, w)
	}
	fixed := FormatArgs(g, "json1")
	fixed = append(fixed, NamesArgs(g, sp.inv.Names)...)
	if sp.inv.Progress && g.Chance(1, 4, "progress") {
		fixed = append(fixed, "--progress")
	}
	inv := BuildInvocation(g, fixed, refopts, roots, sp.inv.CwdKinds, w)
	sc := &Scenario{Format: 1, Property: sp.prop, Engine: "A", World: w, Inv: inv, Plan: GenPlan(g, false),
		Params: numericParams{RefOpts: refopts}}
	return sc
}

func decodeParams(sc *Scenario, into interface{}) {
	b, _ := jsonMarshal(wireCopy(sc.Params, wireEncode))
	jsonUnmarshal(b, into)
	v := reflect.ValueOf(into)
	v.Elem().Set(mapStrings(v.Elem(), wireDecode))
}

// verifyRoots checks the model's resolution of ROOT expressions against
// real git; a disagreement is harness trouble, never a violation.
func verifyRoots(c *Ctx, site *Site, roots []RootArg) bool {
	for _, r := range roots {
		out, err := site.Git(nil, "--no-replace-objects", "rev-parse", "--verify", "--end-of-options", r.Expr)
		if err != nil || strings.TrimSpace(string(out)) != r.OID {
			c.Stats.Probe("model-root-resolution-disagrees-with-git")
			c.Stats.Trouble = append(c.Stats.Trouble, fmt.Sprintf("root %q: model %s, git %q (%v)", r.Expr, r.OID, strings.TrimSpace(string(out)), err))
			return false
		}
	}
	return true
}

func judgeNumeric(c *Ctx, sc *Scenario, sp *numericSpec) *Violation {
	w := sc.World
	site, err := Materialise(w)
	if err != nil {
		c.Stats.Trouble = append(c.Stats.Trouble, "materialise: "+err.Error())
		return nil
	}
	defer site.Close()
	if !verifyRoots(c, site, sc.Inv.Roots) {
		return nil
	}
	var np numericParams
	decodeParams(sc, &np)
	gm, _, err := groupModelFor(site)
	if err != nil {
		c.Stats.Trouble = append(c.Stats.Trouble, "config: "+err.Error())
		return nil
	}
	sel := &Selection{Opts: np.RefOpts, HasRoots: len(sc.Inv.Roots) > 0, GM: gm}
	roots := walkedRoots(w, sel, sc.Inv.Roots)
	ex := w.Expect(roots)

	res := RunA(c.T, c.H, sc, site)
	c.Stats.AddResult(res)
	c.Stats.Evaluations++
	sc.Log = nil
	pfx := sp.prop + "/"
	if res.Panic != "" {
		sc.Log = res.Events
		return &Violation{pfx + "panic", firstLines(res.Panic, 6)}
	}
	if res.Hang {
		sc.Log = res.Events
		return &Violation{pfx + "hang", "no progress possible (fake-time watchdog)"}
	}
	if len(res.Run.ArgProblems) > 0 {
		return &Violation{pfx + "git-invocation", strings.Join(res.Run.ArgProblems, "; ")}
	}
	if res.Failed {
		sc.Log = res.Events
		return &Violation{pfx + "run-failed", "fault-free run on a valid repository failed: " + res.Err}
	}
	got, err := ParseJSONObject(res.Stdout)
	if err != nil {
		return &Violation{pfx + "bad-json", err.Error() + ": " + string(firstBytes(res.Stdout, 300))}
	}
	if bad := ex.CompareV1(got, sp.fields); len(bad) > 0 {
		sort.Strings(bad)
		field := strings.SplitN(bad[0], ":", 2)[0]
		sc.Log = res.Events
		return &Violation{pfx + "mismatch:" + field, strings.Join(bad, "; ")}
	}
	// traffic invariants at the simulated boundary
	if !sc.Plan.RealPeers {
		wantRoots := map[string]bool{}
		for _, r := range roots {
			wantRoots[r] = true
		}
		gotRoots := map[string]bool{}
		for _, r := range res.Run.RevListStdin {
			gotRoots[r] = true
		}
		if d := setDiff(wantRoots, gotRoots); d != "" {
			return &Violation{pfx + "roots-fed-to-rev-list", d}
		}
		if sp.prop == "C01" || sp.prop == "C05" {
			cnt := map[string]int{}
			for _, id := range res.Run.BatchIn {
				cnt[id]++
			}
			for _, id := range sortedStringKeys(ex.Closure) { // sorted: the class reported must not depend on map order
				k := ex.Closure[id]
				if k == KBlob {
					if cnt[id] != 0 {
						return &Violation{pfx + "blob-content-requested", id}
					}
					continue
				}
				if cnt[id] != 1 {
					return &Violation{pfx + "object-requested-not-once", fmt.Sprintf("%s %s requested %d times from cat-file --batch", k, id, cnt[id])}
				}
				delete(cnt, id)
			}
			for _, id := range sortedIntKeys(cnt) {
				if n := cnt[id]; n > 0 {
					return &Violation{pfx + "unreachable-object-requested", id}
				}
			}
		}
	}
	// stub drift guard: one scenario in eight is run again on real git
	// (every scenario when git-sizer passes an option the stub does not model)
	// peers (possible whenever no size is merely declared)
	if !sc.Plan.RealPeers && (fnv64(sc.Hash())%8 == 0 || len(res.Run.Unmodelled) > 0) {
		declared := false
		for _, o := range w.Objects {
			if o.DeclaredSize != nil {
				declared = true
			}
		}
		if !declared {
			r := *sc
			r.Plan = Plan{RealPeers: true}
			// real git would follow a legacy info/grafts file; git-sizer
			// promises not to (C13), so one that adds a parent outside the
			// closure must change nothing
			graftFile := filepath.Join(site.GitDir, "info", "grafts")
			if line := additiveGraft(w, ex); line != "" && w.Extras.Grafts == "" {
				os.WriteFile(graftFile, []byte(line), 0o644)
				defer os.Remove(graftFile)
				c.Stats.Probe("real-peers-run-with-additive-graft")
			}
			rr := RunA(c.T, c.H, &r, site)
			c.Stats.AddResult(rr)
			if rr.Panic != "" || rr.Failed {
				return &Violation{pfx + "real-peers-run-failed", rr.Panic + rr.Err}
			}
			gr, err := ParseJSONObject(rr.Stdout)
			if err != nil {
				return &Violation{pfx + "bad-json", "real peers: " + err.Error()}
			}
			if bad := ex.CompareV1(gr, sp.fields); len(bad) > 0 {
				sort.Strings(bad)
				return &Violation{pfx + "mismatch-on-real-git:" + strings.SplitN(bad[0], ":", 2)[0], "with real git peers: " + strings.Join(bad, "; ")}
			}
			c.Stats.Conformance["cli-runs-cross-checked-on-real-git"]++
			if len(res.Run.Unmodelled) > 0 {
				// an option the stub does not model may depend on how objects
				// are stored: real git also judges the packed layouts
				for _, layout := range []string{"bitmap", "promisor"} {
					lw := w.Clone()
					lw.Layout = layout
					ls, err := Materialise(lw)
					if err != nil {
						continue
					}
					lr := *sc
					lr.World = lw
					lr.Plan = Plan{RealPeers: true}
					lres := RunA(c.T, c.H, &lr, ls)
					ls.Close()
					c.Stats.AddResult(lres)
					if lres.Panic != "" || lres.Failed {
						return &Violation{pfx + "real-peers-run-failed", "layout " + layout + ": " + lres.Panic + lres.Err}
					}
					lg, err := ParseJSONObject(lres.Stdout)
					if err != nil {
						return &Violation{pfx + "bad-json", "real peers, layout " + layout + ": " + err.Error()}
					}
					if bad := ex.CompareV1(lg, sp.fields); len(bad) > 0 {
						sort.Strings(bad)
						return &Violation{pfx + "mismatch-on-real-git:" + strings.SplitN(bad[0], ":", 2)[0], "with real git peers, layout " + layout + ": " + strings.Join(bad, "; ")}
					}
				}
			}
		}
	}
	if sp.nontrivial != nil && sp.nontrivial(w, ex, sel) {
		c.Stats.Nontrivial[sc.Hash()] = true
	}
	c.Stats.Sample(map[string]interface{}{"args": sc.Inv.Args, "objects": len(w.Objects), "refs": len(w.Refs), "closure": len(ex.Closure),
		"expected": ex.JSONv1Fields(), "sim_ns": res.SimNS, "events": len(res.Events), "plan": sc.Plan})
	return nil
}

func setDiff(want, got map[string]bool) string {
	var miss, extra []string
	for k := range want {
		if !got[k] {
			miss = append(miss, k)
		}
	}
	for k := range got {
		if !want[k] {
			extra = append(extra, k)
		}
	}
	if len(miss)+len(extra) == 0 {
		return ""
	}
	sort.Strings(miss)
	sort.Strings(extra)
	return fmt.Sprintf("missing %v, unexpected %v", miss, extra)
}

func firstLines(s string, n int) string {
	ls := strings.Split(s, "\n")
	if len(ls) > n {
		ls = ls[:n]
	}
	return strings.Join(ls, "\n")
}

func firstBytes(b []byte, n int) []byte {
	if len(b) > n {
		return b[:n]
	}
	return b
}

func kindsIn(cl map[string]string) map[string]int {
	m := map[string]int{}
	for _, k := range cl {
		m[k]++
	}
	return m
}

func registerNumeric(sp *numericSpec) {
	Register(&Prop{
		ID: sp.prop,
		Check: func(c *Ctx, rt *rapid.T) {
			if sp.feed && (G{rt}).Chance(1, 3, "graphfeed") {
				sc := genFeedScenario(G{rt}, sp.prop)
				if v := judgeGraphFeed(c, sc, sp.prop, sp.fields); v != nil {
					c.Fail(rt, sc, v.Class, v.Detail)
				}
				return
			}
			sc := genNumericScenario(c, rt, sp)
			if v := judgeNumeric(c, sc, sp); v != nil {
				c.Fail(rt, sc, v.Class, v.Detail)
			}
		},
		Replay: func(c *Ctx, sc *Scenario) *Violation {
			if sc.Engine == "graphfeed" {
				return judgeGraphFeed(c, sc, sp.prop, sp.fields)
			}
			return judgeNumeric(c, sc, sp)
		},
		Rule:       sp.rule,
		Components: componentsA,
	})
}

func init() {
	g1 := DefaultGen
	g1.LongNames = true // paths around the 4 KiB / 64 KiB buffer boundaries of the listing readers
	registerNumeric(&numericSpec{prop: "C01", fields: CensusFields, gen: g1,
		inv: InvOpts{RefOpts: true, Roots: true, Regexps: true, CwdKinds: []string{"top", "top", "subdir", "elsewhere"}, Progress: true},
		nontrivial: func(w *World, ex *Expected, sel *Selection) bool {
			k := kindsIn(ex.Closure)
			return k[KCommit] >= 1 && len(k) >= 3 && len(ex.Closure) < len(w.Objects)
		},
		rule: "scenario = generated world x reference options x ROOT arguments x peer schedule; non-trivial: closure has a commit and >= 3 object kinds and the world has objects outside the closure; distinct by scenario hash"})

	g2 := DefaultGen
	g2.MaxCommits, g2.MaxBlobs = 12, 10
	registerNumeric(&numericSpec{prop: "C02", fields: MaximaFields, gen: g2,
		inv: InvOpts{RefOpts: true, Roots: true, CwdKinds: []string{"top"}},
		nontrivial: func(w *World, ex *Expected, sel *Selection) bool {
			k := kindsIn(ex.Closure)
			return k[KCommit] >= 2 && k[KBlob] >= 2 && k[KTree] >= 2
		},
		rule: "as C01; non-trivial: closure has >= 2 commits, >= 2 blobs and >= 2 trees (so that the maximum has competitors and its position in the delivery order varies with the drawn rev-list order); distinct by scenario hash"})

	g3 := DefaultGen
	g3.MaxCommits, g3.MaxTags, g3.MaxBlobs, g3.MaxTrees = 16, 8, 3, 4
	registerNumeric(&numericSpec{prop: "C03", fields: DepthFields, gen: g3, feed: true,
		inv: InvOpts{RefOpts: true, Roots: true, CwdKinds: []string{"top"}},
		nontrivial: func(w *World, ex *Expected, sel *Selection) bool {
			return ex.MaxHistoryDepth >= 3 || ex.MaxTagDepth >= 2
		},
		rule: "as C01 with commit DAGs up to 16 commits (merges, octopus, several roots, equal / increasing / decreasing / random committer dates) and tag chains; rev-list commit order drawn from the linear extensions of child-before-parent; non-trivial: history depth >= 3 or tag depth >= 2; one third of the evaluations instead feed sizes.Graph directly (Graph-feed driver): every tag permutation and every parents-first linear extension of small DAGs; distinct by scenario hash"})

	g4 := DefaultGen
	g4.MaxTrees, g4.MaxEntries, g4.MaxCommits, g4.NameStyle = 14, 6, 5, 1
	g4.LongNames = true
	registerNumeric(&numericSpec{prop: "C04", fields: CheckoutFields, gen: g4, feed: true,
		inv: InvOpts{RefOpts: true, Roots: true, CwdKinds: []string{"top"}},
		nontrivial: func(w *World, ex *Expected, sel *Selection) bool {
			return ex.MaxDirs >= 3 && ex.MaxDepth >= 2
		},
		rule: "as C01 with tree DAGs up to 14 trees x 6 entries (sharing, repetition, empty trees, all entry kinds); tree delivery order drawn per run; non-trivial: some tree expands to >= 3 directories and depth >= 2; one third of the evaluations instead feed sizes.Graph directly in every tree permutation (<= 6 trees); distinct by scenario hash"})
}

var componentsA = map[string]string{
	"git-sizer CLI (pflag parsing, refopts, sizes.Graph, path resolver, output, meter, parsers)": "real code, current /repo tree, in-process (engine A; language version go1.23 forced by the harness module); packages main, sizes, git, meter, internal/refopts are compiled from generated copies in which a call yieldpt.P(n) precedes every mutex Lock/RLock, channel send/receive and select and follows every go statement (no other difference; /repo itself is untouched; the real binary of engine B is built from the files as they are)",
	"go-pipe Pipeline / Function stages / Wait() error ranking":                                  "real (vendored copy of v1.0.2 with one added seam in CommandStage)",
	"go-pipe commandStage (exec, stderr capture)":                                                "stub for the four streaming commands (in-process peer, simulated pipe, genuine *exec.ExitError values)",
	"git rev-list / cat-file --batch-check / cat-file --batch / for-each-ref":                    "stub (SimGit peers over the world model); real git in conformance cross-runs",
	"git rev-parse / git config (one-shot)":                                                      "real git 2.39.5 on the materialised repository",
	"clock":                                                                                      "testing/synctest fake clock",
	"pipes":                                                                                      "in-memory, capacity / chunking / short reads from the plan",
	"goroutine scheduling":                                                                       "Go runtime at GOMAXPROCS=1; peer event order decided by the plan's fake-time delays; which of git-sizer's own goroutines proceeds at each lock / channel operation / goroutine start decided by the plan's yield counts at the inserted yield points (a yield is a channel hand-off that moves the caller to the tail of the P's local run queue) (one plan in three, and 8 schedules per C17 evaluation)",
}

// additiveGraft returns a graft line that keeps the real parents of one
// reachable commit and adds a commit the scan must not reach, or "".
func additiveGraft(w *World, ex *Expected) string {
	var inside, outside []*Object
	for _, o := range w.Objects {
		if o.Kind != KCommit || !o.Stored || o.Missing {
			continue
		}
		if _, ok := ex.Closure[o.ID]; ok {
			inside = append(inside, o)
		} else {
			outside = append(outside, o)
		}
	}
	if len(inside) == 0 || len(outside) == 0 {
		return ""
	}
	sort.Slice(inside, func(i, j int) bool { return inside[i].ID < inside[j].ID })
	sort.Slice(outside, func(i, j int) bool { return outside[i].ID < outside[j].ID })
	c := inside[0]
	line := c.ID
	for _, p := range DecodeCommit(c.Body).Parents {
		line += " " + p
	}
	return line + " " + outside[0].ID + "\n"
}

func sortedStringKeys(m map[string]string) []string {
	ks := make([]string, 0, len(m))
	for k := range m {
		ks = append(ks, k)
	}
	sort.Strings(ks)
	return ks
}

func sortedIntKeys(m map[string]int) []string {
	ks := make([]string, 0, len(m))
	for k := range m {
		ks = append(ks, k)
	}
	sort.Strings(ks)
	return ks
}
