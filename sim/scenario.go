package sim

import (
	"crypto/sha256"
	"encoding/hex"
	"encoding/json"
	"os"
)

// Fault is one injected failure of a simulated (or proxied) git process.
type Fault struct {
	// Kind: "exit" (exit with Status), "signal" (die of Signal),
	// "stall" (pause StallNS fake nanoseconds at AtByte, then go on).
	Kind string `json:"kind"`
	// AtByte is the output offset at which the fault happens; -1 means
	// after the complete output has been written.
	AtByte int `json:"at_byte"`
	Status int `json:"status,omitempty"`
	Signal int `json:"signal,omitempty"`
	// StdinLines >= 0: the process stops reading its stdin after that
	// many lines (and then fails as above, at output offset AtByte
	// relative to what it could compute). -1: reads normally.
	StdinLines int   `json:"stdin_lines"`
	StallNS    int64 `json:"stall_ns,omitempty"`
	// BackFromEnd > 0 (kind "truncate" only): the cut is that many bytes
	// before the end of the stream the fault-free run produced; the check
	// resolves it to AtByte once it has the baseline.
	BackFromEnd int `json:"back_from_end,omitempty"`
}

// PeerPlan decides everything about one simulated streaming git process.
// All lists are consumed cyclically; empty / zeros = canonical behaviour.
type PeerPlan struct {
	Order      []int   `json:"order,omitempty"`     // commit order choices
	ObjOrder   []int   `json:"obj_order,omitempty"` // pending-object order choices
	Chunks     []int   `json:"chunks,omitempty"`    // sizes of successive writes; 0 = everything available
	Delays     []int   `json:"delays,omitempty"`    // fake-time units (8ns) before each write
	ReadChunks []int   `json:"read_chunks,omitempty"`
	Yields     []int   `json:"yields,omitempty"` // yields (yieldpt.Yield) before successive pipe reads / writes
	PipeCap    int     `json:"pipe_cap"`         // 0 rendezvous; >0 bytes; <0 unbounded
	Flush      string  `json:"flush,omitempty"`  // "", "each", "eof", "n:<bytes>"
	Faults     []Fault `json:"faults,omitempty"`
}

// OneshotFault makes the nth invocation matching Match (substring of the
// space-joined argv) of a one-shot git command fail.
type OneshotFault struct {
	Match  string `json:"match"`
	Nth    int    `json:"nth"`
	Status int    `json:"status,omitempty"`
	Signal int    `json:"signal,omitempty"`
	// AtByte: bytes of real output to let through first (-1 = all).
	AtByte int `json:"at_byte"`
	// DelayMS: with Status and Signal both 0, only slow the command down
	// (real milliseconds, engine B); Nth < 0 applies to every occurrence.
	DelayMS int `json:"delay_ms,omitempty"`
}

type Plan struct {
	Peers   map[string]*PeerPlan `json:"peers,omitempty"`
	Oneshot []OneshotFault       `json:"oneshot,omitempty"`
	Sched   []int                `json:"sched,omitempty"`
	// GoYields: schedule for the yield points compiled into git-sizer's own
	// code (locks, channel operations, goroutine starts); see sim/yieldpt.
	GoYields  []int `json:"go_yields,omitempty"`
	RealPeers bool  `json:"real_peers,omitempty"`
	// StdoutFailAt > 0: git-sizer's stdout accepts StdoutFailAt-1 bytes and
	// then fails every write ("no space left on device"); 0 = no fault.
	StdoutFailAt int `json:"stdout_fail_at,omitempty"`
}

func (p *Plan) Peer(name string) *PeerPlan {
	if p.Peers != nil {
		if pp, ok := p.Peers[name]; ok && pp != nil {
			return pp
		}
	}
	return &PeerPlan{PipeCap: -1}
}

type Invocation struct {
	Args []string `json:"args"`
	// Cwd: "top" (work tree or bare git dir), "subdir", "elsewhere" (with GIT_DIR)
	Cwd string            `json:"cwd,omitempty"`
	Env map[string]string `json:"env,omitempty"`
	// Roots are the ROOT arguments with the object id each must resolve
	// to according to the model (informational for the oracle).
	Roots []RootArg `json:"roots,omitempty"`
}

type RootArg struct {
	Expr string `json:"expr"`
	OID  string `json:"oid"`
}

type ExpectInfo struct {
	Class  string `json:"class"`
	Detail string `json:"detail"`
}

// Scenario is a pure value: running it draws no random numbers.
type Scenario struct {
	Format   int         `json:"format"`
	Property string      `json:"property"`
	Engine   string      `json:"engine"`
	Seed     uint64      `json:"seed"`
	World    *World      `json:"world"`
	Inv      Invocation  `json:"invocation"`
	Plan     Plan        `json:"plan"`
	Params   interface{} `json:"params,omitempty"` // property-specific extra inputs
	Expect   *ExpectInfo `json:"expect,omitempty"`
	Log      []Event     `json:"log,omitempty"`
}

func (sc *Scenario) Hash() string {
	c := *sc
	c.Expect = nil
	c.Log = nil
	c.Seed = 0
	b, _ := json.Marshal(wireCopy(&c, wireEncode))
	h := sha256.Sum256(b)
	return hex.EncodeToString(h[:8])
}

func (sc *Scenario) Save(path string) error {
	b, err := json.MarshalIndent(wireCopy(sc, wireEncode), "", " ")
	if err != nil {
		return err
	}
	return os.WriteFile(path, b, 0o644)
}

func LoadScenario(path string) (*Scenario, error) {
	b, err := os.ReadFile(path)
	if err != nil {
		return nil, err
	}
	var sc Scenario
	if err := json.Unmarshal(b, &sc); err != nil {
		return nil, err
	}
	dec := wireCopy(&sc, wireDecode).(*Scenario)
	if dec.World != nil {
		dec.World.byID = nil
	}
	return dec, nil
}

// Event is one entry of the simulator's event log.
type Event struct {
	Seq   int    `json:"seq"`
	TNS   int64  `json:"t_ns"`
	Actor string `json:"actor"`
	Ev    string `json:"ev"`
	N     int    `json:"n"`
}
