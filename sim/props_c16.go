package sim

// C16: object parsers are lossless and total.

import (
	"bytes"
	"fmt"
	"strconv"
	"strings"
	"time"

	"pgregory.net/rapid"
)

type c16Params struct {
	Mode string `json:"mode"` // api | truncate
	// api mode: one explicit case to replay
	Kind  string `json:"kind,omitempty"` // tree | commit | tag | reference | batch-header
	Input []byte `json:"input,omitempty"`
	Valid bool   `json:"valid,omitempty"`
	// truncate mode
	RefOpts []RefOpt `json:"refopts,omitempty"`
}

type parseOutcome struct {
	err     error
	panic   string
	timeout bool
	entries []ParsedEntry
	a, b    string
	list    []string
	size    uint64
}

func callParser(api ParserAPI, kind string, input []byte) parseOutcome {
	ch := make(chan parseOutcome, 1)
	go func() {
		var o parseOutcome
		defer func() {
			if p := recover(); p != nil {
				o.panic = fmt.Sprint(p)
			}
			ch <- o
		}()
		oid := strings.Repeat("0", 39) + "1"
		switch kind {
		case "tree":
			o.entries, o.err = api.TreeEntries(input)
		case "commit":
			o.a, o.list, o.size, o.err = api.Commit(oid, input)
		case "tag":
			o.a, o.b, o.size, o.err = api.Tag(oid, input)
		case "reference":
			var name, typ, id string
			name, typ, id, o.size, o.err = api.Reference(string(input))
			o.a, o.b = name, typ
			o.list = []string{id}
		case "batch-header":
			var id, typ string
			id, typ, o.size, o.err = api.BatchHeader(string(input))
			o.a, o.b = id, typ
		}
	}()
	select {
	case o := <-ch:
		return o
	case <-time.After(30 * time.Second):
		return parseOutcome{timeout: true}
	}
}

// judgeParse checks one parser call. valid: the input is a well-formed
// object of the model, so the result must be exact.
func judgeParse(api ParserAPI, kind string, input []byte, valid bool) *Violation {
	o := callParser(api, kind, input)
	if o.timeout {
		return &Violation{"C16/parser-does-not-terminate", fmt.Sprintf("%s parser on %d bytes", kind, len(input))}
	}
	if o.panic != "" {
		return &Violation{"C16/parser-panic", fmt.Sprintf("%s parser: %s on %q", kind, o.panic, firstBytes(input, 200))}
	}
	if kind == "tree" && o.err == nil {
		// entries must lie inside the input: their serialisation cannot be longer than it
		total := 0
		for _, e := range o.entries {
			total += len(fmt.Sprintf("%o", e.Mode)) + 1 + len(e.Name) + 1 + 20
		}
		if total > len(input) {
			return &Violation{"C16/tree-entries-exceed-input", fmt.Sprintf("%d bytes of entries from %d bytes of input", total, len(input))}
		}
	}
	if !valid {
		return nil
	}
	if o.err != nil {
		return &Violation{"C16/valid-object-rejected", fmt.Sprintf("%s: %v on %q", kind, o.err, firstBytes(input, 300))}
	}
	switch kind {
	case "tree":
		want, err := DecodeTree(input)
		if err != nil {
			return nil
		}
		if len(want) != len(o.entries) {
			return &Violation{"C16/tree-entries", fmt.Sprintf("%d entries parsed, the tree has %d", len(o.entries), len(want))}
		}
		var es []TreeEntry
		for i, e := range o.entries {
			if e.Mode != want[i].Mode || e.Name != want[i].Name || e.OID != want[i].OID {
				return &Violation{"C16/tree-entry", fmt.Sprintf("entry %d: parsed (%o %q %s), the tree has (%o %q %s)", i, e.Mode, e.Name, e.OID, want[i].Mode, want[i].Name, want[i].OID)}
			}
			es = append(es, TreeEntry{Mode: e.Mode, Name: e.Name, OID: e.OID})
		}
		if !bytes.Equal(EncodeTree(es), input) {
			return &Violation{"C16/tree-not-lossless", "re-serialising the parsed entries does not reproduce the object"}
		}
	case "commit":
		ci := DecodeCommit(input)
		if o.a != ci.Tree || strings.Join(o.list, ",") != strings.Join(ci.Parents, ",") {
			return &Violation{"C16/commit-headers", fmt.Sprintf("parsed tree %s parents %v; the header block has tree %s parents %v\n%q", o.a, o.list, ci.Tree, ci.Parents, firstBytes(input, 600))}
		}
		if o.size != uint64(len(input)) {
			return &Violation{"C16/commit-size", fmt.Sprintf("size %d, object has %d bytes", o.size, len(input))}
		}
	case "reference", "batch-header":
		// "<oid> <type> <size>[ <refname>]": the first three blanks separate
		// the columns, everything after the third belongs to the name
		f := strings.SplitN(strings.TrimSuffix(string(input), "\n"), " ", 4)
		if len(f) < 3 {
			return nil
		}
		wantSize, err := strconv.ParseUint(f[2], 10, 64)
		if err != nil {
			return nil
		}
		if kind == "reference" {
			if len(f) != 4 {
				return nil
			}
			if o.a != f[3] || o.b != f[1] || len(o.list) != 1 || o.list[0] != f[0] || o.size != wantSize {
				return &Violation{"C16/reference-line", fmt.Sprintf("line %q parsed as (%q %q %v %d)", input, o.a, o.b, o.list, o.size)}
			}
		} else if o.a != f[0] || o.b != f[1] || o.size != wantSize {
			return &Violation{"C16/batch-header-line", fmt.Sprintf("line %q parsed as (%q %q %d)", input, o.a, o.b, o.size)}
		}
	case "tag":
		ti := DecodeTag(input)
		if o.a != ti.Object || o.b != ti.Type {
			return &Violation{"C16/tag-headers", fmt.Sprintf("parsed object %s type %s; the header block has %s %s\n%q", o.a, o.b, ti.Object, ti.Type, firstBytes(input, 400))}
		}
		if o.size != uint64(len(input)) {
			return &Violation{"C16/tag-size", fmt.Sprintf("size %d, object has %d bytes", o.size, len(input))}
		}
	}
	return nil
}

// corruptions yields corrupted variants of a valid body.
func corruptions(g G, body []byte, n int) [][]byte {
	var out [][]byte
	for i := 0; i < n; i++ {
		b := append([]byte(nil), body...)
		switch g.Pick(7, "corruption") {
		case 0: // bit flip
			if len(b) > 0 {
				k := g.Pick(len(b), "flipat")
				b[k] ^= 1 << uint(g.Pick(8, "bit"))
			}
		case 1: // truncation
			b = b[:g.Int(0, len(b), "truncat")]
		case 2: // splice
			if len(b) > 1 {
				i := g.Pick(len(b), "splicefrom")
				j := g.Pick(len(b), "spliceto")
				if i > j {
					i, j = j, i
				}
				b = append(b[:i:i], b[j:]...)
			}
		case 3: // duplicated line
			lines := bytes.SplitAfter(b, []byte("\n"))
			if len(lines) > 0 {
				k := g.Pick(len(lines), "dupline")
				var nb []byte
				for i, l := range lines {
					nb = append(nb, l...)
					if i == k {
						nb = append(nb, l...)
					}
				}
				b = nb
			}
		case 4: // removed line
			lines := bytes.SplitAfter(b, []byte("\n"))
			if len(lines) > 0 {
				k := g.Pick(len(lines), "rmline")
				var nb []byte
				for i, l := range lines {
					if i != k {
						nb = append(nb, l...)
					}
				}
				b = nb
			}
		case 5: // random bytes
			b = g.Bytes(64, "randombytes")
		default: // byte overwrite with an interesting value
			if len(b) > 0 {
				b[g.Pick(len(b), "owat")] = []byte{0, '\n', ' ', 0xff, '0', '7', '8'}[g.Pick(7, "owval")]
			}
		}
		out = append(out, b)
	}
	return out
}

func judgeC16(c *Ctx, sc *Scenario) *Violation {
	var p c16Params
	decodeParams(sc, &p)
	if p.Mode == "api" {
		c.Stats.Evaluations++
		return judgeParse(c.H.Parsers, p.Kind, p.Input, p.Valid)
	}
	if p.Mode == "longline" {
		w := sc.World
		site, err := Materialise(w)
		if err != nil {
			return nil
		}
		defer site.Close()
		var roots []string
		for _, r := range w.AllRefs() {
			roots = append(roots, r.OID)
		}
		ex := w.Expect(roots)
		res := RunA(c.T, c.H, sc, site)
		c.Stats.AddResult(res)
		c.Stats.Evaluations++
		c.Stats.Extra["long_listing_line_runs"]++
		if res.Panic != "" {
			return &Violation{"C16/long-listing-line-crash", firstLines(res.Panic, 8)}
		}
		if res.Hang {
			return &Violation{"C16/long-listing-line-hang", ""}
		}
		if res.Failed {
			return &Violation{"C16/long-listing-line-rejected", res.Err}
		}
		got, err := ParseJSONObject(res.Stdout)
		if err != nil {
			return &Violation{"C16/long-listing-line-bad-json", err.Error()}
		}
		if bad := ex.CompareV1(got, CensusFields); len(bad) > 0 {
			return &Violation{"C16/long-listing-line-misread", strings.Join(bad, "; ")}
		}
		// the reader must ask cat-file --batch-check for exactly the listed objects
		if len(res.Run.BatchCheckIn) != len(ex.Closure) {
			return &Violation{"C16/long-listing-line-misread", fmt.Sprintf("%d ids sent to cat-file --batch-check, %d objects listed", len(res.Run.BatchCheckIn), len(ex.Closure))}
		}
		c.Stats.Nontrivial[sc.Hash()] = true
		return nil
	}
	// truncate mode: every truncation point of the streams, exit status 0
	w := sc.World
	site, err := Materialise(w)
	if err != nil {
		return nil
	}
	defer site.Close()
	base, ok := baselineOf(c, sc, site)
	if !ok {
		return nil
	}
	c.Stats.Evaluations++
	totals := map[string]int{}
	for _, st := range base.Run.stages {
		if st.nth == 0 && st.out != nil {
			totals[st.kind] = st.out.total
		}
	}
	if len(sc.Plan.Peers) > 0 {
		// replay of one explicit truncation
		for _, pp := range sc.Plan.Peers {
			if pp != nil && len(pp.Faults) > 0 {
				return runTruncated(c, sc, site)
			}
		}
	}
	for _, kind := range peerKinds {
		total := totals[kind]
		step := 1
		maxOff := 40
		if c.Tier == "thorough" {
			maxOff = 400
		}
		if total > maxOff {
			step = total / maxOff
		}
		for off := 0; off < total; off += step {
			t := *sc
			t.Plan = Plan{Peers: map[string]*PeerPlan{}}
			for _, k := range peerKinds {
				t.Plan.Peers[k] = &PeerPlan{PipeCap: -1}
			}
			t.Plan.Peers[kind] = &PeerPlan{PipeCap: -1, Chunks: []int{0, 7}, Faults: []Fault{{Kind: "truncate", AtByte: off, StdinLines: -1}}}
			if v := runTruncated(c, &t, site); v != nil {
				sc.Plan = t.Plan
				return v
			}
		}
	}
	c.Stats.Nontrivial[sc.Hash()] = true
	return nil
}

func runTruncated(c *Ctx, sc *Scenario, site *Site) *Violation {
	res := RunA(c.T, c.H, sc, site)
	c.Stats.AddResult(res)
	c.Stats.Extra["truncated_stream_runs"]++
	if res.Panic != "" {
		// A truncated stream that ends with exit status 0 is a state real
		// git cannot produce; sizes.Graph's own consistency panics ("tree
		// size not available!", "blob size not known", ...) on such input
		// are outside this property. Only a crash inside the parsers of
		// package git counts.
		msg := firstLines(res.Panic, 1)
		inGit := false
		for _, l := range strings.Split(res.Panic, "\n") {
			if strings.Contains(l, "github.com/github/git-sizer/git.") {
				inGit = true
				break
			}
			if strings.Contains(l, "github.com/github/git-sizer/sizes.") || strings.Contains(l, "main.mainImplementation") {
				break
			}
		}
		if inGit {
			return &Violation{"C16/crash-on-truncated-stream", describeFaults(&sc.Plan) + ": " + firstLines(res.Panic, 14)}
		}
		c.Stats.Probe("graph-consistency-panic-on-impossible-stream (not judged): " + firstBytesStr(msg, 40))
		return nil
	}
	if res.Hang {
		return &Violation{"C16/hang-on-truncated-stream", describeFaults(&sc.Plan)}
	}
	return nil
}

func checkC16(c *Ctx, rt *rapid.T) {
	g := G{rt}
	if g.Rare(1, 300, "truncate") {
		w, inv, refopts := genC10Base(g, true)
		sc := &Scenario{Format: 1, Property: "C16", Engine: "A", World: w, Inv: inv, Plan: Plan{}, Params: c16Params{Mode: "truncate", RefOpts: refopts}}
		if v := judgeC16(c, sc); v != nil {
			c.Fail(rt, sc, v.Class, v.Detail)
		}
		return
	}
	if g.Rare(1, 40, "longline") {
		// listing lines of any length: `git rev-list --objects` prints the full
		// path after the object id; the line reader must neither fail nor take
		// bytes of a long path for another line
		opts := DefaultGen
		opts.MaxBlobs, opts.MaxTrees, opts.MaxCommits, opts.MaxTags, opts.MaxRefs = 3, 3, 3, 1, 3
		opts.NameStyle = 0
		w := GenWorld(g, opts)
		blob := w.Add(NewObject(KBlob, []byte("long line\n")))
		// the tail of the name looks like object ids of the world, so that a
		// reader that resynchronises in the middle of a line finds "valid" ids
		var ids []string
		for _, o := range w.Objects {
			ids = append(ids, o.ID)
		}
		l := g.PickInt([]int{4014, 4015, 4016, 4055, 4056, 4057, 8110, 8111, 8112, 8151, 8152, 8153, 8192, 12247, 16384, 40000, 65494, 65495, 70000}, "linelen")
		var nb strings.Builder
		for nb.Len() < l {
			nb.WriteString(ids[nb.Len()%len(ids)])
		}
		name := nb.String()[:l]
		tr := w.Add(NewObject(KTree, EncodeTree([]TreeEntry{{Mode: 0o100644, Name: name, OID: blob.ID}})))
		cs := CommitSpec{Tree: tr.ID, Author: ident("A", 1500000000, "+0000"), Committer: ident("C", 1500000000, "+0000"), Message: "long line\n"}
		co := w.Add(NewObject(KCommit, EncodeCommit(cs)))
		w.Refs = append(w.Refs, Ref{Name: "refs/heads/longline", OID: co.ID})
		sc := &Scenario{Format: 1, Property: "C16", Engine: "A", World: w, Inv: Invocation{Args: []string{"--json", "--names=none"}, Cwd: "top"}, Plan: GenPlan(g, false), Params: c16Params{Mode: "longline"}}
		if v := judgeC16(c, sc); v != nil {
			c.Fail(rt, sc, v.Class, v.Detail)
		}
		return
	}
	opts := DefaultGen
	opts.NameStyle = 2
	opts.LongNames = g.Chance(1, 4, "long")
	opts.ExoticRefNames = true
	w := GenWorld(g, opts)
	fail := func(kind string, input []byte, valid bool, v *Violation) {
		sc := &Scenario{Format: 1, Property: "C16", Engine: "parser-api", Params: c16Params{Mode: "api", Kind: kind, Input: input, Valid: valid}}
		c.Fail(rt, sc, v.Class, v.Detail)
	}
	calls := 0
	for _, o := range w.Objects {
		if o.Kind == KBlob {
			continue
		}
		calls++
		if v := judgeParse(c.H.Parsers, o.Kind, o.Body, true); v != nil {
			fail(o.Kind, o.Body, true, v)
			return
		}
		for _, cb := range corruptions(g, o.Body, 6) {
			calls++
			if v := judgeParse(c.H.Parsers, o.Kind, cb, false); v != nil {
				fail(o.Kind, cb, false, v)
				return
			}
		}
		// every truncation point of small objects
		if len(o.Body) <= 400 {
			for k := 0; k < len(o.Body); k++ {
				calls++
				if v := judgeParse(c.H.Parsers, o.Kind, o.Body[:k], false); v != nil {
					fail(o.Kind, o.Body[:k], false, v)
					return
				}
			}
		}
	}
	// listing parsers on the lines real git output consists of
	for _, r := range w.AllRefs() {
		o := w.Get(r.OID)
		line := fmt.Sprintf("%s %s %d %s", o.ID, o.Kind, o.Size(), r.Name)
		calls++
		if v := judgeParse(c.H.Parsers, "reference", []byte(line), true); v != nil {
			fail("reference", []byte(line), true, v)
			return
		}
	}
	for _, o := range w.Objects {
		line := fmt.Sprintf("%s %s %d\n", o.ID, o.Kind, o.Size())
		calls++
		if v := judgeParse(c.H.Parsers, "batch-header", []byte(line), true); v != nil {
			fail("batch-header", []byte(line), true, v)
			return
		}
		miss := o.ID + " missing\n"
		po := callParser(c.H.Parsers, "batch-header", []byte(miss))
		if po.panic != "" || po.err == nil {
			fail("batch-header", []byte(miss), false, &Violation{"C16/missing-line-accepted", fmt.Sprintf("%q: err=%v panic=%q", miss, po.err, po.panic)})
			return
		}
	}
	c.Stats.Evaluations++
	c.Stats.Extra["parser_calls"] += float64(calls)
	c.Stats.Nontrivial[fmt.Sprintf("w%x", fnv64(string(mustJSON(w))))] = true
}

func mustJSON(v interface{}) []byte {
	b, _ := jsonMarshal(wireCopy(v, wireEncode))
	return b
}

func init() {
	comp := map[string]string{
		"git.ParseTree/TreeIter, ParseCommit, ParseTag, ParseReference, ParseBatchHeader": "real code, called directly through the glue (no process, no pipe)",
		"reader loops of the three pipelines (truncation part)":                           "real code in engine A against simulated peers that stop after N bytes with exit status 0",
	}
	Register(&Prop{ID: "C16", Check: checkC16, Replay: judgeC16, Components: comp,
		Rule: "(a) losslessness: every tree / commit / tag body of generated worlds (hostile and long names, gpgsig / mergetag / unknown multi-line headers, messages imitating headers, missing message or blank line) through the real parsers: re-serialised tree entries reproduce the object, tree / parents / object / type equal the model's own header-block parser, sizes equal the byte length; for-each-ref and cat-file header lines of the world parse to the model's values, 'missing' lines are errors; (b) totality under corruption faults of those valid bodies: bit flips, every truncation point (objects <= 400 bytes), splices, duplicated / removed lines, overwrites with NUL/LF/SP/0xff, random bytes - each call under recover with a 30 s watchdog; a panic, entries larger than the input or non-termination is a violation; (c) truncation points (40 evenly spaced offsets per stream in the quick tier, 400 in the thorough tier) of the four listing streams served with exit status 0 through the real reader loops: no crash, no hang. (d) listing lines of any length: rev-list lines of 4 014..70 000 bytes whose path consists of object ids of the world, through the real line reader: the run must succeed, the census be exact and exactly the listed ids be requested from cat-file --batch-check. Coverage-guided fuzzing over all byte strings is a different technique and is not claimed. distinct by world hash"})
}

func firstBytesStr(s string, n int) string {
	if len(s) > n {
		return s[:n]
	}
	return s
}
