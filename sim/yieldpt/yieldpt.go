// Package yieldpt is the target of the yield points that cmd/yieldinst
// inserts into copies of git-sizer's sources (overlay build, engine A
// only), and the yield primitive of the simulated pipes. A schedule is a
// list of counts consumed cyclically: at the k-th yield point passed, the
// running goroutine yields the processor that many times. At GOMAXPROCS=1
// this decides, repeatably, which of git-sizer's runnable goroutines
// proceeds at every lock, channel operation and goroutine start.
package yieldpt

import (
	"runtime"
	"sync/atomic"
)

var (
	sched  atomic.Pointer[[]int]
	cursor atomic.Uint64
	// Passed and Yielded count, for the evidence, the yield points passed
	// while a schedule was installed and the yields made.
	Passed  atomic.Uint64
	Yielded atomic.Uint64
)

// Set installs a schedule (nil or empty: none) and rewinds it.
func Set(s []int) {
	cursor.Store(0)
	if len(s) == 0 {
		sched.Store(nil)
		return
	}
	c := append([]int(nil), s...)
	sched.Store(&c)
}

// P is a yield point.
func P(id int) {
	s := sched.Load()
	if s == nil {
		return
	}
	Passed.Add(1)
	i := cursor.Add(1) - 1
	n := (*s)[int(i%uint64(len(*s)))]
	for ; n > 0; n-- {
		Yielded.Add(1)
		Yield()
	}
}

// LockHook, when set, is called at every yield point that precedes a
// Lock/RLock call (after the point's own yields). The meter simulation uses
// it to park the worker goroutine at the entry of Start() and Done(), where
// it holds no lock yet.
var LockHook atomic.Pointer[func()]

// L is the yield point before a Lock or RLock call.
func L(id int) {
	P(id)
	if h := LockHook.Load(); h != nil {
		(*h)()
	}
}

// Goid returns the id of the calling goroutine (parsed from its stack
// header; used only to tell the meter simulation's worker from the tickers).
func Goid() uint64 {
	var b [64]byte
	n := runtime.Stack(b[:], false)
	var id uint64
	for _, c := range b[len("goroutine "):n] {
		if c < '0' || c > '9' {
			break
		}
		id = id*10 + uint64(c-'0')
	}
	return id
}

// A yield must move the caller behind the goroutines that are runnable now
// and nothing else. runtime.Gosched does not: it parks the caller on the
// scheduler's global queue, which is polled ahead of the local queue on
// every 61st scheduling decision of the P, and that counter also advances
// for reasons that depend on real time (the goroutines that copy the output
// of the real one-shot git processes, for example). Measured: with Gosched
// 0.7 % of the runs of one seed had differently ordered event logs.
//
// Yield therefore uses only channel hand-offs, which stay on the P's local
// queue: the caller hands a private channel to helper A and blocks on it; A
// (made runnable in the "run next" slot) wakes the caller, which takes the
// slot, and then pokes helper B, which takes the slot in turn and thereby
// pushes the caller to the tail of the local queue; A and B park again.
// What runs next is the head of the local queue; the caller runs when the
// goroutines that were runnable before it have had their turn.
type helpers struct {
	req  chan chan struct{}
	poke chan struct{}
	quit chan struct{}
}

var cur atomic.Pointer[helpers]

// Start creates the two helper goroutines. It must be called inside the
// synctest bubble that will use Yield, and the returned function before
// the bubble's root function returns.
func Start() (stop func()) {
	h := &helpers{req: make(chan chan struct{}), poke: make(chan struct{}), quit: make(chan struct{})}
	go func() { // A
		for {
			select {
			case c := <-h.req:
				c <- struct{}{} // buffered: never blocks; the caller is waiting
				select {
				case h.poke <- struct{}{}:
				case <-h.quit:
					return
				}
			case <-h.quit:
				return
			}
		}
	}()
	go func() { // B
		for {
			select {
			case <-h.poke:
			case <-h.quit:
				return
			}
		}
	}()
	cur.Store(h)
	return func() {
		cur.Store(nil)
		close(h.quit)
	}
}

// Yield lets the goroutines that are runnable now run first.
func Yield() {
	h := cur.Load()
	if h == nil {
		runtime.Gosched()
		return
	}
	c := make(chan struct{}, 1)
	select {
	case h.req <- c:
		select {
		case <-c:
		case <-h.quit:
		}
	case <-h.quit:
	}
}
