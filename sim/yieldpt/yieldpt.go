// Package yieldpt is the target of the yield points that cmd/yieldinst
// inserts into copies of git-sizer's sources (overlay build, engine A
// only). A schedule is a list of counts consumed cyclically: at the k-th
// yield point passed, the running goroutine calls runtime.Gosched() that
// many times. At GOMAXPROCS=1 this decides, repeatably, which of
// git-sizer's runnable goroutines proceeds at every lock, channel
// operation and goroutine start.
package yieldpt

import (
	"runtime"
	"sync/atomic"
)

var (
	sched  atomic.Pointer[[]int]
	cursor atomic.Uint64
	// Passed and Yielded count, for the evidence, the yield points passed
	// while a schedule was installed and the Gosched calls made.
	Passed  atomic.Uint64
	Yielded atomic.Uint64
)

// Set installs a schedule (nil or empty: none) and rewinds it.
func Set(s []int) {
	cursor.Store(0)
	if len(s) == 0 {
		sched.Store(nil)
		return
	}
	c := append([]int(nil), s...)
	sched.Store(&c)
}

// P is a yield point.
func P(id int) {
	s := sched.Load()
	if s == nil {
		return
	}
	Passed.Add(1)
	i := cursor.Add(1) - 1
	n := (*s)[int(i%uint64(len(*s)))]
	for ; n > 0; n-- {
		Yielded.Add(1)
		runtime.Gosched()
	}
}
