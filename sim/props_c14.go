package sim

// C14: the command line overrides gitconfig; equivalent spellings give
// identical output.

import (
	"bytes"
	"fmt"
	"strings"

	"pgregory.net/rapid"
)

type c14Params struct {
	Relation string   `json:"relation"`
	A        c14Run   `json:"a"`
	B        c14Run   `json:"b"`
	Base     []string `json:"base"` // common trailing arguments
	// SameStderrPresence: compare whether stderr is empty (progress relations)
	Progress bool `json:"progress,omitempty"`
}

type c14Run struct {
	Args   []string   `json:"args"`
	Config []ConfigKV `json:"config,omitempty"` // sizer.* entries
	Scope  string     `json:"scope,omitempty"`  // local | global | command
	// Decoy: other values for the same keys, written where git gives them
	// lower precedence than Config: every lower scope, and an earlier line of
	// the same file. git's rule is "last one wins".
	Decoy []ConfigKV `json:"decoy,omitempty"`
}

func applySizerConfig(w *World, r c14Run) *World {
	nw := w.Clone()
	if len(r.Config) == 0 {
		return nw
	}
	var b strings.Builder
	for _, kv := range r.Config {
		sec, key := "sizer", kv.Key
		fmt.Fprintf(&b, "[%s]\n\t%s = %s\n", sec, key, configValue(kv.Value))
	}
	if len(r.Decoy) > 0 {
		var d strings.Builder
		for _, kv := range r.Decoy {
			fmt.Fprintf(&d, "[sizer]\n\t%s = %s\n", kv.Key, configValue(kv.Value))
		}
		nw.Config.System += d.String()
		switch r.Scope {
		case "global":
			nw.Config.Global += d.String() // an earlier line of the same file
		case "command":
			nw.Config.Global += d.String()
			nw.Config.Local += d.String()
		default:
			nw.Config.Global += d.String()
			nw.Config.Local += d.String() // an earlier line of the same file
		}
	}
	switch r.Scope {
	case "global":
		nw.Config.Global += b.String()
	case "command":
		for _, kv := range r.Config {
			nw.Config.Command = append(nw.Config.Command, ConfigKV{"sizer." + kv.Key, kv.Value})
		}
	default:
		nw.Config.Local += b.String()
	}
	return nw
}

func judgeC14(c *Ctx, sc *Scenario) *Violation {
	var p c14Params
	decodeParams(sc, &p)
	c.Stats.Evaluations++
	runOne := func(r c14Run) (*Result, *Violation) {
		w := applySizerConfig(sc.World, r)
		site, err := Materialise(w)
		if err != nil {
			return nil, nil
		}
		defer site.Close()
		v := *sc
		v.World = w
		v.Inv.Args = append(append([]string(nil), r.Args...), p.Base...)
		res := RunA(c.T, c.H, &v, site)
		c.Stats.AddResult(res)
		if res.Panic != "" {
			return nil, &Violation{"C14/panic", fmt.Sprintf("%v: %s", v.Inv.Args, firstLines(res.Panic, 8))}
		}
		if res.Hang {
			return nil, &Violation{"C14/hang", fmt.Sprint(v.Inv.Args)}
		}
		return res, nil
	}
	ra, v := runOne(p.A)
	if v != nil {
		return v
	}
	rb, v := runOne(p.B)
	if v != nil {
		return v
	}
	if ra == nil || rb == nil {
		return nil
	}
	desc := fmt.Sprintf("%s: A = args %q config %v (%s); B = args %q config %v (%s); common args %q", p.Relation, p.A.Args, p.A.Config, p.A.Scope, p.B.Args, p.B.Config, p.B.Scope, p.Base)
	if ra.Failed != rb.Failed {
		return &Violation{"C14/" + p.Relation + ":exit-status-differs", fmt.Sprintf("%s\nA: failed=%v %s\nB: failed=%v %s", desc, ra.Failed, ra.Err, rb.Failed, rb.Err)}
	}
	if ra.Failed {
		// both runs fail alike (e.g. the generated refgroup configuration is one
		// git-sizer must reject): the relation holds trivially
		c.Stats.Probe("both-runs-failed-alike (not judged further)")
		return nil
	}
	if !bytes.Equal(ra.Stdout, rb.Stdout) {
		return &Violation{"C14/" + p.Relation + ":stdout-differs", fmt.Sprintf("%s\nA:\n%s\nB:\n%s", desc, firstBytes(ra.Stdout, 700), firstBytes(rb.Stdout, 700))}
	}
	if p.Progress && (len(ra.Stderr) == 0) != (len(rb.Stderr) == 0) {
		return &Violation{"C14/" + p.Relation + ":progress-differs", fmt.Sprintf("%s\nA stderr %d bytes, B stderr %d bytes", desc, len(ra.Stderr), len(rb.Stderr))}
	}
	c.Stats.Nontrivial[sc.Hash()] = true
	c.Stats.Probe("relation-" + p.Relation)
	if len(p.A.Decoy) > 0 {
		c.Stats.Probe("with-a-decoy-value-in-lower-precedence-scopes")
	}
	return nil
}

func checkC14(c *Ctx, rt *rapid.T) {
	g := G{rt}
	opts := DefaultGen
	opts.ExtraHeaders = false
	w := GenWorld(g, opts)
	// a big blob so that thresholds matter
	if g.Chance(2, 3, "bigblob") {
		sz := uint64(g.Int(1, 40, "k")) * 10_000_000
		b := NewObject(KBlob, []byte("c14\n"))
		b.DeclaredSize = &sz
		b = w.Add(b)
		t := w.Add(NewObject(KTree, EncodeTree([]TreeEntry{{Mode: 0o100644, Name: "big", OID: b.ID}})))
		cs := CommitSpec{Tree: t.ID, Author: ident("A", 1500000000, "+0000"), Committer: ident("C", 1500000000, "+0000"), Message: "c14\n"}
		co := w.Add(NewObject(KCommit, EncodeCommit(cs)))
		if !refConflicts(refSet(w), "refs/heads/c14") {
			w.Refs = append(w.Refs, Ref{Name: "refs/heads/c14", OID: co.ID})
		}
	}
	scope := g.PickStr([]string{"local", "global", "command"}, "scope")
	thresholds := []string{"0", "1", "30", "2.5", "1e3", "-1", "0.5", "7"}
	namesV := []string{"none", "hash", "full", "sha1", "sha-1"}
	bools := []string{"true", "false", "yes", "no", "on", "off", "1", "0"}
	invalid := map[string][]string{
		"threshold":   {"abc", "", "1,5", "--"},
		"names":       {"bogus", "FULL", ""},
		"jsonVersion": {"7", "0", "x", "-1"},
		"progress":    {"maybe", "2", "nope"},
	}
	keyCase := func(k string) string {
		switch g.Pick(3, "keycase") {
		case 0:
			return strings.ToLower(k)
		case 1:
			return strings.ToUpper(k[:1]) + k[1:]
		}
		return k
	}
	var p c14Params
	format := g.PickStr([]string{"table", "json1", "json2"}, "format")
	base := FormatArgs(g, format)
	rel := g.Pick(9, "relation")
	switch rel {
	case 0: // config == option: threshold
		t := g.PickStr(thresholds, "thr")
		p = c14Params{Relation: "config-equals-option:threshold", A: c14Run{Config: []ConfigKV{{keyCase("threshold"), t}}, Scope: scope}, B: c14Run{Args: []string{"--threshold=" + t}}}
	case 1: // names
		n := g.PickStr(namesV, "names")
		p = c14Params{Relation: "config-equals-option:names", A: c14Run{Config: []ConfigKV{{keyCase("names"), n}}, Scope: scope}, B: c14Run{Args: []string{"--names=" + n}}}
	case 2: // jsonVersion
		n := g.PickStr([]string{"1", "2"}, "jv")
		base = []string{"--json"}
		p = c14Params{Relation: "config-equals-option:jsonVersion", A: c14Run{Config: []ConfigKV{{keyCase("jsonVersion"), n}}, Scope: scope}, B: c14Run{Args: []string{"--json-version=" + n}}}
	case 3: // progress
		bv := g.PickStr(bools, "bool")
		on := bv == "true" || bv == "yes" || bv == "on" || bv == "1"
		opt := "--no-progress"
		if on {
			opt = "--progress"
		}
		p = c14Params{Relation: "config-equals-option:progress", Progress: true, A: c14Run{Config: []ConfigKV{{keyCase("progress"), bv}}, Scope: scope}, B: c14Run{Args: []string{opt}}}
	}
	if strings.HasPrefix(p.Relation, "config-equals-option:") && g.Bool("decoy") {
		// the same key with another value where it must lose
		kv := p.A.Config[0]
		var other string
		switch {
		case strings.HasSuffix(p.Relation, ":threshold"):
			other = g.PickStr([]string{"0", "1", "30", "7.5", "1e9"}, "decoythr")
		case strings.HasSuffix(p.Relation, ":names"):
			other = g.PickStr([]string{"none", "hash", "full"}, "decoynames")
		case strings.HasSuffix(p.Relation, ":jsonVersion"):
			other = map[string]string{"1": "2", "2": "1"}[kv.Value]
		default:
			other = map[bool]string{true: "false", false: "true"}[kv.Value == "true" || kv.Value == "yes" || kv.Value == "on" || kv.Value == "1"]
		}
		if other != "" && other != kv.Value {
			p.A.Decoy = []ConfigKV{{kv.Key, other}}
		}
	}
	switch {
	case rel < 4:
		// done above
	case rel == 4: // option given => config (valid or invalid) has no effect
		fam := g.PickStr([]string{"threshold", "names", "jsonVersion", "progress"}, "family")
		var optArgs []string
		var vals []string
		switch fam {
		case "threshold":
			optArgs = [][]string{{"--threshold=" + g.PickStr(thresholds, "thr2")}, {"-v"}, {"--verbose"}, {"--critical"}, {"--no-verbose"}}[g.Pick(5, "thropt")]
			vals = append(append([]string(nil), thresholds...), invalid[fam]...)
		case "names":
			optArgs = []string{"--names=" + g.PickStr(namesV, "names2")}
			vals = append(append([]string(nil), namesV...), invalid[fam]...)
		case "jsonVersion":
			base = []string{"--json"}
			optArgs = []string{"--json-version=" + g.PickStr([]string{"1", "2"}, "jv2")}
			vals = append([]string{"1", "2"}, invalid[fam]...)
		case "progress":
			optArgs = []string{g.PickStr([]string{"--progress", "--no-progress"}, "progopt")}
			vals = append(append([]string(nil), bools...), invalid[fam]...)
			p.Progress = true
		}
		val := vals[g.Pick(len(vals), "cfgval")]
		p.Relation = "option-overrides-config:" + fam
		p.A = c14Run{Args: optArgs, Config: []ConfigKV{{keyCase(fam), val}}, Scope: scope}
		p.B = c14Run{Args: optArgs}
	case rel == 5: // last of the threshold family wins
		n := g.Int(2, 5, "nfam")
		var seq []string
		var last string
		for i := 0; i < n; i++ {
			switch g.Pick(5, "fam") {
			case 0:
				t := g.PickStr(thresholds, "thr3")
				seq = append(seq, "--threshold="+t)
				last = t
			case 1:
				seq = append(seq, g.PickStr([]string{"-v", "--verbose"}, "vform"))
				last = "0"
			case 2:
				seq = append(seq, "--no-verbose")
				last = "1"
			case 3:
				seq = append(seq, "--critical")
				last = "30"
			default:
				t := g.PickStr(thresholds, "thr4")
				seq = append(seq, "--threshold", t)
				last = t
			}
		}
		p = c14Params{Relation: "last-of-family-wins", A: c14Run{Args: seq}, B: c14Run{Args: []string{"--threshold=" + last}}}
	case rel == 6: // equivalent spellings: thresholds
		pairs := [][2][]string{
			{{"--verbose"}, {"--threshold=0"}}, {{"-v"}, {"--threshold=0"}}, {{"--critical"}, {"--threshold=30"}}, {{"--no-verbose"}, {"--threshold=1"}},
			{{"--verbose"}, {"-v"}}, {{}, {"--threshold=1"}}, {{}, {"--names=full"}},
		}
		pr := pairs[g.Pick(len(pairs), "pair")]
		p = c14Params{Relation: "equivalent-spellings", A: c14Run{Args: pr[0]}, B: c14Run{Args: pr[1]}}
	case rel == 7: // -j == --json ; json-version default
		base = nil
		pairs := [][2][]string{
			{{"-j"}, {"--json"}}, {{"--json"}, {"--json", "--json-version=1"}}, {{"-j", "--json-version=2"}, {"--json", "--json-version", "2"}},
		}
		pr := pairs[g.Pick(len(pairs), "jpair")]
		p = c14Params{Relation: "equivalent-spellings", A: c14Run{Args: pr[0]}, B: c14Run{Args: pr[1]}}
	default: // --include-regexp R == --include /R/ ; --refgroup G == --include @G
		var names []string
		for _, r := range w.AllRefs() {
			names = append(names, r.Name)
		}
		if g.Bool("regexppair") {
			re := g.PickStr(regexpPool, "re")
			if g.Bool("richre") {
				re = GenRegexp(g, names)
			}
			if _, err := regexpFullMatch(re, "x"); err != nil {
				re = "refs/heads/.*"
			}
			neg := g.Bool("exclude")
			a, b := []string{"--include-regexp", re}, []string{"--include", "/" + re + "/"}
			if neg {
				a, b = []string{"--exclude-regexp", re}, []string{"--exclude", "/" + re + "/"}
			}
			p = c14Params{Relation: "equivalent-spellings", A: c14Run{Args: a}, B: c14Run{Args: b}}
		} else if g.Bool("configuredgroup") {
			// --refgroup G == --include @G also for configured groups: nested ones,
			// groups under a parent that has rules of its own, rule-less parents
			specs := GenGroups(g, w, 4, false)
			if len(specs) == 0 {
				specs = []GroupSpec{{Symbol: "tags.rel", Rules: []GroupRule{{Include: true, Regexp: true, Pattern: ".*/release-.*|.*main.*"}}}}
			}
			w.Config.Local += RenderGroups(specs, &g)
			gmod := NewGroupModel()
			for _, sp := range specs {
				gmod.ensure(sp.Symbol)
			}
			var syms []string
			for _, sym := range gmod.Order {
				if sym != "" {
					syms = append(syms, sym)
				}
			}
			grp := syms[g.Pick(len(syms), "cfggrp")]
			p = c14Params{Relation: "equivalent-spellings", A: c14Run{Args: []string{"--refgroup", grp}}, B: c14Run{Args: []string{"--include", "@" + grp}}}
		} else {
			grp := g.PickStr([]string{"branches", "tags", "remotes", "notes", "stash", "pulls", "changes"}, "grp")
			p = c14Params{Relation: "equivalent-spellings", A: c14Run{Args: []string{"--refgroup", grp}}, B: c14Run{Args: []string{"--include", "@" + grp}}}
			if g.Bool("eqform") {
				p.A.Args = []string{"--refgroup=" + grp}
				p.B.Args = []string{"--include=@" + grp}
			}
		}
		base = append(base, "--show-refs")
	}
	p.Base = base
	pl := GenPlan(g, false)
	if p.Progress {
		for _, k := range peerKinds {
			pl.Peers[k].Delays = []int{20_000_000}
			pl.Peers[k].Chunks = []int{64}
		}
	}
	sc := &Scenario{Format: 1, Property: "C14", Engine: "A", World: w, Inv: Invocation{Cwd: "top"}, Plan: pl, Params: p}
	if v := judgeC14(c, sc); v != nil {
		c.Fail(rt, sc, v.Class, v.Detail)
	}
}

func init() {
	Register(&Prop{ID: "C14", Check: checkC14, Replay: judgeC14, Components: componentsA,
		Rule: "paired CLI runs on one generated world under the same peer schedule: (1) sizer.threshold / names / jsonVersion / progress set in local, global or command scope (any key capitalisation) without an option of that family == the option with that value; (2) an option of the family given => identical output whatever the config value is, including invalid values (the run must not fail); (3) sequences of 2-5 of --threshold X / -v / --verbose / --no-verbose / --critical == --threshold=<last>; (4) documented equivalent spellings (--verbose/-v/--threshold=0, --critical/--threshold=30, --no-verbose/--threshold=1, -j/--json, --json-version default, --include-regexp R / --include /R/, --refgroup G / --include @G) are byte-identical on stdout, agree on exit status, and (progress relations) on whether anything is written to stderr with peers slowed on the fake clock. non-trivial: every pair; distinct by scenario hash"})
}
