package sim

// C18 part 1: deterministic simulation of the progress meter. The real
// progressMeter runs inside a synctest bubble; a baton scheduler decides,
// from the plan, whether the worker, one of the ticker goroutines parked
// at the H1 hook (tick received, lock not yet taken) or the clock moves
// next. Every byte written is checked online against the phase model.

import (
	"fmt"
	"regexp"
	"runtime"
	"strconv"
	"sync"
	"sync/atomic"
	"testing"
	"testing/synctest"
	"time"
	"verif/sim/yieldpt"
)

type MeterOp struct {
	Op string `json:"op"` // start | inc | add | sleep | done
	N  int64  `json:"n,omitempty"`
}

type MeterScript struct {
	PeriodMS int       `json:"period_ms"`
	Ops      []MeterOp `json:"ops"`
}

type meterParams struct {
	Script MeterScript `json:"script"`
}

type parked struct {
	id int
	ch chan bool // true = proceed, false = exit now
}

type meterSim struct {
	mu     sync.Mutex
	parked []*parked
	nextID int
	ending bool
	// draining: the script is over (or aborted); frames are no longer held in
	// flight, because nobody is left to land them while a ticker waits for the lock
	draining bool

	// model
	phase     int // index of the current phase (-1 before the first Start)
	active    bool
	count     int64
	finalSeen map[int]bool
	lastShown map[int]int64
	events    []Event
	seq       int
	violation *Violation
	frames    int
	staleWake int
	t0        time.Time
	slow      []int // per intermediate frame: > 0 = the frame is held "in flight" until the scheduler lets it land
	slowi     int
	inflight  []chan bool

	// the worker can be parked at the entry of Start() / Done() (yield point
	// before the meter's Lock, where it holds no lock yet)
	workerGoid   atomic.Uint64
	expectPark   atomic.Bool
	workerPark   chan struct{}
	workerResume chan struct{}
	midOp        int
}

func (m *meterSim) logEv(actor, ev string, n int) {
	m.events = append(m.events, Event{Seq: m.seq, TNS: int64(time.Since(m.t0)), Actor: actor, Ev: ev, N: n})
	m.seq++
}

func (m *meterSim) fail(class, detail string) {
	if m.violation == nil {
		m.violation = &Violation{class, detail}
	}
}

var frameRe = regexp.MustCompile(`^phase(\d+): (-?\d+)   (.?)                    ([\r\n])$`)

// Write is the meter's io.Writer: one call per frame. An intermediate
// frame ("\r") may, if the plan says so, take fake time to be written (a slow
// terminal): the scheduler then gets control while the frame is "in flight".
// With the meter's lock held across the write nothing can overtake it (a worker
// step that needs the lock makes the scheduler land the frame first); a frame
// written outside the lock can be overtaken by the final line.
func (m *meterSim) Write(b []byte) (int, error) {
	if len(b) > 0 && b[len(b)-1] == '\r' {
		m.mu.Lock()
		hold := false
		if len(m.slow) > 0 && !m.ending && !m.draining {
			hold = m.slow[m.slowi%len(m.slow)] > 0
			m.slowi++
		}
		var ch chan bool
		if hold {
			ch = make(chan bool)
			m.inflight = append(m.inflight, ch)
			m.logEv("meter", "frame-in-flight", len(m.inflight))
		}
		m.mu.Unlock()
		if hold {
			<-ch // the scheduler decides when the frame lands
		}
	}
	m.mu.Lock()
	defer m.mu.Unlock()
	m.logEv("meter", "frame", len(b))
	mm := frameRe.FindSubmatch(b)
	if mm == nil {
		m.fail("C18/malformed-frame", fmt.Sprintf("%q", b))
		return len(b), nil
	}
	ph, _ := strconv.Atoi(string(mm[1]))
	cnt, _ := strconv.ParseInt(string(mm[2]), 10, 64)
	final := mm[4][0] == '\n'
	if m.finalSeen[ph] {
		m.fail("C18/frame-after-final-line", fmt.Sprintf("phase %d: %q written after the phase's final line", ph, b))
		return len(b), nil
	}
	if ph != m.phase || (!m.active && !final) {
		m.fail("C18/frame-for-inactive-phase", fmt.Sprintf("frame %q while phase %d active=%v", b, m.phase, m.active))
		return len(b), nil
	}
	if last, ok := m.lastShown[ph]; ok && cnt < last {
		m.fail("C18/count-decreased", fmt.Sprintf("phase %d: %d shown after %d", ph, cnt, last))
	}
	m.lastShown[ph] = cnt
	// an intermediate frame may have been snapshotted a little earlier than it
	// lands (Inc() does not take the lock): it must not exceed what has been
	// counted and must not go backwards; the final line must be exact
	if final && cnt != m.count {
		m.fail("C18/final-count-wrong", fmt.Sprintf("phase %d: final line shows %d, %d items were counted", ph, cnt, m.count))
	}
	if !final && cnt > m.count {
		m.fail("C18/frame-count-wrong", fmt.Sprintf("phase %d: frame shows %d, only %d items had been counted when it was written", ph, cnt, m.count))
	}
	if final {
		m.finalSeen[ph] = true
	} else {
		m.frames++
	}
	return len(b), nil
}

// yield is installed as meter.SimYield.
func (m *meterSim) yield(point string) {
	m.mu.Lock()
	if m.ending {
		m.mu.Unlock()
		runtime.Goexit()
	}
	p := &parked{id: m.nextID, ch: make(chan bool)}
	m.nextID++
	m.parked = append(m.parked, p)
	m.logEv("ticker", "park", p.id)
	m.mu.Unlock()
	if !<-p.ch {
		runtime.Goexit()
	}
}

// RunMeterSim plays a script under the schedule and returns the first
// violation, the number of frames and the interleaving signature.
type MeterRunResult struct {
	V      *Violation
	Frames int
	Events []Event
	Stale  int
	MidOp  int // times the worker was parked inside Start()/Done()
}

// RunMeterSims plays several (script, schedule) pairs in one bubble (a
// bubble costs milliseconds, a schedule microseconds). It stops at the
// first violation; the index of the failing pair is len(results)-1.
func RunMeterSims(t *testing.T, api MeterAPI, scripts []MeterScript, scheds [][]int) (results []MeterRunResult) {
	defer func() {
		if p := recover(); p != nil {
			results = append(results, MeterRunResult{V: &Violation{"C18/panic-or-deadlock", fmt.Sprint(p)}})
		}
	}()
	synctest.Test(t, func(t *testing.T) {
		stopYield := yieldpt.Start() // the scheduler's own yields stay on the local run queue
		defer stopYield()
		for i := range scripts {
			r := runMeterSimInBubble(api, scripts[i], scheds[i])
			results = append(results, r)
			if r.V != nil {
				return
			}
		}
	})
	return results
}

func runMeterSimInBubble(api MeterAPI, script MeterScript, sched []int) MeterRunResult {
	m := &meterSim{phase: -1, finalSeen: map[int]bool{}, lastShown: map[int]int64{}}
	// every third schedule holds some intermediate frames in flight (derived
	// from the schedule itself, so the scenario format is unchanged)
	if len(sched) > 0 && sched[0]%3 == 0 {
		for _, k := range sched {
			m.slow = append(m.slow, []int{0, 1, 1, 0, 1}[k%5])
		}
	}
	m.workerPark, m.workerResume = make(chan struct{}), make(chan struct{})
	lockHook := func() {
		if !m.expectPark.Load() || yieldpt.Goid() != m.workerGoid.Load() {
			return
		}
		m.workerPark <- struct{}{}
		<-m.workerResume
	}
	yieldpt.LockHook.Store(&lockHook)
	defer yieldpt.LockHook.Store(nil)
	if !api.SetYield(m.yield) {
		return MeterRunResult{V: &Violation{"C18/hook-missing", "the binary was built without the verif tag"}}
	}
	defer api.SetYield(nil)
	si := 0
	choose := func(n int) int {
		if n <= 1 || len(sched) == 0 {
			return 0
		}
		k := sched[si%len(sched)]
		si++
		if k < 0 {
			k = -k
		}
		return k % n
	}
	{
		m.t0 = time.Now()
		period := time.Duration(script.PeriodMS) * time.Millisecond
		meter := api.New(m, period)
		baton := make(chan MeterOp)
		stepDone := make(chan struct{})
		go func() {
			m.workerGoid.Store(yieldpt.Goid())
			for op := range baton {
				switch op.Op {
				case "start":
					m.mu.Lock()
					m.phase++
					m.active = true
					m.count = 0
					ph := m.phase
					m.logEv("worker", "start", ph)
					m.mu.Unlock()
					meter.Start(fmt.Sprintf("phase%d: %%d", ph))
				case "inc":
					// the model counts first: a frame printed after this
					// point may legally show the new value only once the
					// meter's own counter has it, and under the baton no
					// frame can be printed in between
					meter.Inc()
					m.mu.Lock()
					m.count++
					m.logEv("worker", "inc", 1)
					m.mu.Unlock()
				case "add":
					meter.Add(op.N)
					m.mu.Lock()
					m.count += op.N
					m.logEv("worker", "add", int(op.N))
					m.mu.Unlock()
				case "sleep":
					m.mu.Lock()
					m.logEv("worker", "sleep", int(op.N))
					m.mu.Unlock()
					time.Sleep(time.Duration(op.N) * time.Millisecond)
				case "done":
					m.mu.Lock()
					m.logEv("worker", "done", m.phase)
					m.mu.Unlock()
					meter.Done()
					m.mu.Lock()
					m.active = false
					m.mu.Unlock()
				}
				stepDone <- struct{}{}
			}
		}()
		// land lets n in-flight frames (all if n < 0) complete their write
		land := func(n int) {
			for n != 0 {
				m.mu.Lock()
				if len(m.inflight) == 0 {
					m.mu.Unlock()
					return
				}
				ch := m.inflight[0]
				m.inflight = m.inflight[1:]
				m.logEv("sched", "land", len(m.inflight))
				m.mu.Unlock()
				ch <- true
				synctest.Wait()
				n--
			}
		}
		// step runs one worker operation. If a frame is in flight and the
		// meter holds its lock across the write, a worker operation that needs
		// the lock cannot finish before the frame has landed: after yielding
		// twice (one P: the worker has then either finished or blocked) the
		// scheduler lands the frames in flight and waits for the worker.
		step := func(op MeterOp) {
			parkable := op.Op == "start" || op.Op == "done"
			if parkable {
				m.expectPark.Store(true)
			}
			defer m.expectPark.Store(false)
			baton <- op
			if op.Op == "sleep" {
				<-stepDone
				return
			}
			for {
				// Has the worker finished, or parked inside the operation at the
				// meter's Lock (no lock held yet)? After a few yields it has done
				// one of the two, or it is blocked on the lock behind a frame in
				// flight.
				st := 0 // 1 finished, 2 parked
				for i := 0; i < 4 && st == 0; i++ {
					select {
					case <-stepDone:
						st = 1
					case <-m.workerPark:
						st = 2
					default:
						yieldpt.Yield()
					}
				}
				if st == 0 {
					// cannot use land(): synctest.Wait would wait for the worker, which is waiting for the lock
					for {
						m.mu.Lock()
						if len(m.inflight) == 0 {
							m.mu.Unlock()
							break
						}
						ch := m.inflight[0]
						m.inflight = m.inflight[1:]
						m.logEv("sched", "land-for-blocked-worker", len(m.inflight))
						m.mu.Unlock()
						ch <- true
					}
					select {
					case <-stepDone:
						st = 1
					case <-m.workerPark:
						st = 2
					}
				}
				if st == 1 {
					return
				}
				// parked inside Start() / Done(): parked tickers may go first, and
				// the clock may move (a tick then falls into the window)
				m.mu.Lock()
				m.logEv("worker", "parked-inside-"+op.Op, len(m.parked))
				m.midOp++
				m.mu.Unlock()
				for a := 0; a < 4; a++ {
					k := choose(3)
					if k == 0 {
						break
					}
					m.mu.Lock()
					np, nf := len(m.parked), len(m.inflight)
					m.mu.Unlock()
					if k == 1 && np > 0 && nf == 0 {
						m.mu.Lock()
						j := choose(len(m.parked))
						p := m.parked[j]
						m.parked = append(m.parked[:j], m.parked[j+1:]...)
						m.logEv("sched", "release-inside-"+op.Op, p.id)
						m.mu.Unlock()
						p.ch <- true
						synctest.Wait()
					} else if k == 2 && nf == 0 {
						d := []time.Duration{time.Millisecond, period / 2, period, period + time.Millisecond}[choose(4)]
						m.mu.Lock()
						m.logEv("sched", "advance-inside-"+op.Op, int(d/time.Millisecond))
						m.mu.Unlock()
						time.Sleep(d)
					}
				}
				m.workerResume <- struct{}{}
			}
		}
		ops := script.Ops
		oi := 0
		steps := 0
		for steps < 400 {
			steps++
			synctest.Wait()
			m.mu.Lock()
			np := len(m.parked)
			nf := len(m.inflight)
			bad := m.violation != nil
			m.mu.Unlock()
			if bad {
				break
			}
			landAlt := -1
			if nf > 0 {
				// While a frame is in flight the meter's lock may be held: a
				// released ticker would block on it (not durably), which
				// synctest cannot wait for. Tickers stay parked until it lands.
				np = 0
			}
			nalt := np
			if nf > 0 {
				landAlt = nalt
				nalt++
			}
			workerAlt := -1
			if oi < len(ops) {
				workerAlt = nalt
				nalt++
			}
			clockAlt := nalt
			nalt++
			if oi >= len(ops) && np == 0 && nf == 0 {
				m.mu.Lock()
				rest := len(m.parked)
				m.mu.Unlock()
				if rest == 0 {
					break
				}
			}
			k := choose(nalt)
			switch {
			case k == landAlt:
				land(1)
			case k < np:
				m.mu.Lock()
				p := m.parked[k]
				m.parked = append(m.parked[:k], m.parked[k+1:]...)
				m.logEv("sched", "release", p.id)
				m.mu.Unlock()
				p.ch <- true
			case k == workerAlt:
				step(ops[oi])
				oi++
			case k == clockAlt:
				d := []time.Duration{time.Millisecond, period / 2, period, period + time.Millisecond}[choose(4)]
				m.mu.Lock()
				m.logEv("sched", "advance", int(d/time.Millisecond))
				m.mu.Unlock()
				time.Sleep(d)
			}
		}
		// fairness: a schedule that starves the worker still ends with the
		// script played to its end
		m.mu.Lock()
		bad := m.violation != nil
		m.mu.Unlock()
		for ; oi < len(ops) && !bad; oi++ {
			step(ops[oi])
		}
		m.mu.Lock()
		m.draining = true
		m.mu.Unlock()
		land(-1)
		close(baton)
		// drain: stale tickers may wake once more; none may print
		for i := 0; i < 3; i++ {
			synctest.Wait()
			land(-1)
			m.mu.Lock()
			ps := m.parked
			m.parked = nil
			m.mu.Unlock()
			for _, p := range ps {
				m.staleWake++
				p.ch <- true
			}
			time.Sleep(period + time.Millisecond)
		}
		synctest.Wait()
		m.mu.Lock()
		m.ending = true
		ps := m.parked
		m.parked = nil
		m.mu.Unlock()
		for _, p := range ps {
			p.ch <- false
		}
		land(-1)
		// a ticker goroutine that is still waiting for ticks at this point
		// would keep the bubble alive for ever; the `ending` flag makes it
		// exit at its next tick
		time.Sleep(2 * period)
		synctest.Wait()
	}
	m.mu.Lock()
	defer m.mu.Unlock()
	if m.violation == nil {
		// every finished phase must have exactly one final line
		done := 0
		for _, op := range script.Ops {
			if op.Op == "done" {
				done++
			}
		}
		if len(m.finalSeen) != done {
			m.violation = &Violation{"C18/final-line-missing", fmt.Sprintf("%d phases finished, %d final lines written", done, len(m.finalSeen))}
		}
	}
	return MeterRunResult{V: m.violation, Frames: m.frames, Events: m.events, Stale: m.staleWake, MidOp: m.midOp}
}

// GenMeterScript draws a phase script.
func GenMeterScript(g G) MeterScript {
	s := MeterScript{PeriodMS: g.PickInt([]int{100, 100, 10, 1}, "period")}
	nph := g.Int(1, 4, "nphases")
	for p := 0; p < nph; p++ {
		s.Ops = append(s.Ops, MeterOp{Op: "start"})
		n := g.Int(0, 10, "nops")
		for i := 0; i < n; i++ {
			switch g.Pick(6, "op") {
			case 0, 1, 2:
				s.Ops = append(s.Ops, MeterOp{Op: "inc"})
			case 3:
				s.Ops = append(s.Ops, MeterOp{Op: "add", N: int64(g.Int(0, 1000, "addn"))})
			default:
				ms := g.PickInt([]int{1, s.PeriodMS / 2, s.PeriodMS - 1, s.PeriodMS, s.PeriodMS + 1, s.PeriodMS * 2, s.PeriodMS*3 + 1}, "sleepms")
				if ms < 1 {
					ms = 1
				}
				s.Ops = append(s.Ops, MeterOp{Op: "sleep", N: int64(ms)})
			}
		}
		s.Ops = append(s.Ops, MeterOp{Op: "done"})
	}
	return s
}
