package sim

import (
	"bytes"
	"encoding/json"
	"fmt"
	"os"
	"os/exec"
	"path/filepath"
	"strings"
)

func jsonUint(v interface{}) (uint64, bool) {
	switch x := v.(type) {
	case json.Number:
		var u uint64
		if _, err := fmt.Sscanf(x.String(), "%d", &u); err != nil || fmt.Sprint(u) != x.String() {
			return 0, false
		}
		return u, true
	case float64:
		if x < 0 || x != float64(uint64(x)) {
			return 0, false
		}
		return uint64(x), true
	}
	return 0, false
}

// ParseJSONObject decodes a JSON object keeping numbers exact, and
// rejecting trailing garbage.
func ParseJSONObject(b []byte) (map[string]interface{}, error) {
	dec := json.NewDecoder(bytes.NewReader(b))
	dec.UseNumber()
	var m map[string]interface{}
	if err := dec.Decode(&m); err != nil {
		return nil, err
	}
	var extra interface{}
	if err := dec.Decode(&extra); err == nil {
		return nil, fmt.Errorf("trailing data after JSON object")
	}
	return m, nil
}

// lookReal finds the real git: the first `git` on PATH that is not our shim.
func lookReal() (string, error) {
	if p := os.Getenv("VERIF_REAL_GIT"); p != "" {
		return p, nil
	}
	for _, d := range filepath.SplitList(os.Getenv("PATH")) {
		p := filepath.Join(d, "git")
		st, err := os.Stat(p)
		if err != nil || st.IsDir() || st.Mode()&0o111 == 0 {
			continue
		}
		if strings.Contains(d, "shimdir") {
			continue
		}
		return p, nil
	}
	return exec.LookPath("git")
}

func warmExitErrors() {
	for _, s := range []int{1, 2, 3, 128, 129, 255} {
		exitError(s, 0, "")
	}
	for _, s := range []int{9, 11, 13, 15} {
		exitError(0, s, "")
	}
}

func writeShimPlan(path string, faults []OneshotFault) {
	b, _ := json.Marshal(map[string]interface{}{"oneshot": faults})
	os.WriteFile(path, b, 0o644)
}

func VerifHome() string {
	if h := os.Getenv("VERIF_HOME"); h != "" {
		return h
	}
	return "/verif"
}

func jsonMarshal(v interface{}) ([]byte, error)   { return json.Marshal(v) }
func jsonUnmarshal(b []byte, v interface{}) error { return json.Unmarshal(b, v) }
