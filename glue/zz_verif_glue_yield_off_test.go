//go:build !verif

package main

func setMeterYield(f func(string)) bool { return false }
