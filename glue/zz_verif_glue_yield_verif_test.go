//go:build verif

package main

import "github.com/github/git-sizer/meter"

func setMeterYield(f func(string)) bool {
	meter.SimYield = f
	return true
}
