//go:debug asynctimerchan=0

// Glue between git-sizer (package main, the current working tree of /repo)
// and the simulation harness in /verif/sim. This file is injected with
// `go test -overlay`; nothing is written into /repo.
package main

import (
	"encoding/json"
	"io"
	"reflect"
	"testing"
	"time"

	"github.com/github/git-sizer/git"
	"github.com/github/git-sizer/meter"
	"github.com/github/git-sizer/sizes"

	"verif/sim"
)

type graphAPI struct{}

type graphHandle struct{ g *sizes.Graph }

func (graphAPI) NewGraph(nameStyle int) sim.GraphHandle {
	return &graphHandle{sizes.NewGraph(sizes.NameStyle(nameStyle))}
}

func mustOID(s string) git.OID {
	oid, err := git.NewOID(s)
	if err != nil {
		panic(err)
	}
	return oid
}

// RegisterBlob is called through reflection so that the glue compiles
// whatever integer type the size parameter has in the tree under test
// (counts.Count32 before the 64-bit size fix, counts.Count64 after it).
func (h *graphHandle) RegisterBlob(oid string, size uint64) {
	f := reflect.ValueOf(h.g.RegisterBlob)
	arg := reflect.New(f.Type().In(1)).Elem()
	if arg.Type().Bits() == 32 && size > 1<<32-1 {
		size = 1<<32 - 1 // what counts.NewCount32 does
	}
	arg.SetUint(size)
	f.Call([]reflect.Value{reflect.ValueOf(mustOID(oid)), arg})
}

func (h *graphHandle) RegisterTree(oid string, body []byte) error {
	t, err := git.ParseTree(mustOID(oid), body)
	if err != nil {
		return err
	}
	return h.g.RegisterTree(mustOID(oid), t)
}

func (h *graphHandle) RegisterCommit(oid string, body []byte) error {
	c, err := git.ParseCommit(mustOID(oid), body)
	if err != nil {
		return err
	}
	h.g.RegisterCommit(mustOID(oid), c)
	return nil
}

func (h *graphHandle) RegisterTag(oid string, body []byte) error {
	t, err := git.ParseTag(mustOID(oid), body)
	if err != nil {
		return err
	}
	h.g.RegisterTag(mustOID(oid), t)
	return nil
}

func (h *graphHandle) HistoryJSON() ([]byte, error) {
	hs := h.g.HistorySize()
	return json.Marshal(hs)
}

type meterAPI struct{}

func (meterAPI) New(w io.Writer, period time.Duration) sim.MeterHandle {
	return meter.NewProgressMeter(w, period)
}

func (meterAPI) SetYield(f func(string)) bool { return setMeterYield(f) }

type parserAPI struct{}

func (parserAPI) TreeEntries(body []byte) ([]sim.ParsedEntry, error) {
	t, err := git.ParseTree(git.NullOID, body)
	if err != nil {
		return nil, err
	}
	it := t.Iter()
	var out []sim.ParsedEntry
	for {
		e, ok, err := it.NextEntry()
		if err != nil {
			return out, err
		}
		if !ok {
			return out, nil
		}
		out = append(out, sim.ParsedEntry{Mode: uint32(e.Filemode), Name: e.Name, OID: e.OID.String()})
	}
}

func (parserAPI) Commit(oid string, body []byte) (string, []string, uint64, error) {
	c, err := git.ParseCommit(mustOID(oid), body)
	if err != nil {
		return "", nil, 0, err
	}
	var ps []string
	for _, p := range c.Parents {
		ps = append(ps, p.String())
	}
	return c.Tree.String(), ps, uint64(c.Size), nil
}

func (parserAPI) Tag(oid string, body []byte) (string, string, uint64, error) {
	t, err := git.ParseTag(mustOID(oid), body)
	if err != nil {
		return "", "", 0, err
	}
	return t.Referent.String(), string(t.ReferentType), uint64(t.Size), nil
}

func (parserAPI) Reference(line string) (string, string, string, uint64, error) {
	r, err := git.ParseReference(line)
	if err != nil {
		return "", "", "", 0, err
	}
	return r.Refname, string(r.ObjectType), r.OID.String(), uint64(r.ObjectSize), nil
}

func (parserAPI) BatchHeader(line string) (string, string, uint64, error) {
	h, err := git.ParseBatchHeader("", line)
	if err != nil {
		return "", "", 0, err
	}
	return h.OID.String(), string(h.ObjectType), uint64(h.ObjectSize), nil
}

func TestVerifSim(t *testing.T) {
	sim.Main(t, sim.Hooks{
		Main:    mainImplementation,
		Graph:   graphAPI{},
		Meter:   meterAPI{},
		Parsers: parserAPI{},
	})
}
