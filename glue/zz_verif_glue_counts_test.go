package main

import "github.com/github/git-sizer/counts"

func countsNew32(n uint64) counts.Count32 { return counts.NewCount32(n) }
