#!/bin/bash
# usage: tools/mutants.sh <list-file>   lines: <patch> <property> [budget]
# Runs each mutant sequentially, prints one line per mutant: CAUGHT / MISSED / NOCOMPILE
while read -r patch prop budget; do
  [ -z "$patch" ] && continue
  case "$patch" in \#*) continue;; esac
  out=$(/verif/tools/mutcheck.sh "$patch" "$prop" "${budget:-10}" 2>&1)
  if echo "$out" | grep -q "^VIOLATION property=$prop"; then
    cls=$(echo "$out" | grep -m1 "violation class" | sed 's/violation class: //')
    echo "CAUGHT  $prop $(basename $patch)  [$cls]"
  elif echo "$out" | grep -q "does not compile\|does not apply"; then
    echo "NOCOMPILE $prop $(basename $patch)"
  else
    echo "MISSED  $prop $(basename $patch)  $(echo "$out" | grep -m1 '^exit=')"
  fi
  rm -rf /verif/replays
done < "$1"
