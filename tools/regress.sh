#!/bin/bash
# usage: tools/regress.sh [out-file]
# Re-runs every filed change (seeded/*/patch.diff, sensitivity/*.diff) against the
# quick tier of the checks named in its meta.json / list, each in a scratch
# worktree of /repo HEAD, and prints one line per (change, check).
set -u
OUT=${1:-/verif/seeded/regression.txt}
: > "$OUT"
run() { # patch prop label
  local WT; WT=$(mktemp -d /tmp/reg-XXXXXX)
  git -C /repo worktree add -q --detach "$WT" HEAD >/dev/null 2>&1 || { echo "TROUBLE $3 $2 (worktree)" >> "$OUT"; return; }
  if git -C "$WT" apply "$1" 2>/dev/null && (cd "$WT" && GOFLAGS=-mod=mod GOPROXY=off go build ./... >/dev/null 2>&1); then
    local o; o=$(VERIF_REPO="$WT" /verif/bin/simcheck -property "$2" -tier quick 2>&1)
    if echo "$o" | grep -q "^VIOLATION property=$2"; then
      echo "CAUGHT  $3 $2 [$(echo "$o" | grep -m1 'violation class' | sed 's/violation class: //')]" >> "$OUT"
    elif echo "$o" | grep -q "^TROUBLE"; then
      echo "TROUBLE $3 $2 $(echo "$o" | grep -m1 '^TROUBLE' | cut -c1-160)" >> "$OUT"
    else
      echo "MISSED  $3 $2" >> "$OUT"
    fi
  else
    echo "NOAPPLY $3 $2" >> "$OUT"
  fi
  git -C /repo worktree remove --force "$WT" >/dev/null 2>&1; rm -rf "$WT" /verif/replays
}
for d in /verif/seeded/s*/; do
  id=$(basename "$d")
  for p in $(python3 -c "import json,sys;print(' '.join(json.load(open('$d/meta.json'))['checks_run'].keys()))"); do
    run "$d/patch.diff" "$p" "$id"
  done
done
while read -r patch prop budget; do
  [ -z "$patch" ] && continue
  run "$patch" "$prop" "$(basename "$patch" .diff)"
done < /verif/sensitivity/handmade.list
for r in /verif/sensitivity/revert-*.diff; do
  case $(basename $r) in
    revert-e0f886e*) p=C10;; revert-da3f0dd*) p=C06;; revert-90c9a03*) p=C15;; revert-3c52ba5*) p=C07;; revert-1eb4c98*) p=C05;;
    revert-7beb95d*) p=C08;; revert-3954615*) p=C04;; revert-e23f951*) p=C10;; revert-2986ddc*) p=C13;; *) continue;;
  esac
  run "$r" "$p" "$(basename "$r" .diff)"
done
echo finished >> "$OUT"
