#!/usr/bin/env python3
"""Create hand-written sensitivity mutants as diffs against /repo HEAD (in a scratch worktree)."""
import subprocess, os, sys, tempfile, shutil
MUT = [
 # name, property, file, old, new
 ("m01-ticker-identity-check-dropped", "C18", "meter/meter.go", "if p.ticker != ticker {", "if false && p.ticker != ticker {"),
 ("m02-done-keeps-ticker", "C18", "meter/meter.go", "\tp.ticker = nil\n", ""),
 ("m03-start-keeps-count", "C18", "meter/meter.go", "\tatomic.StoreInt64(&p.count, 0)\n", ""),
 ("m04-readfull-to-read", "C01", "git/batch_obj_iter.go", "if _, err := io.ReadFull(f, data); err != nil {", "if _, err := f.Read(data); err != nil {"),
 ("m05-no-replace-objects-dropped", "C13", "git/git.go", '\t\t"--no-replace-objects",\n\t\t"-c", "core.useReplaceRefs=false",\n', ""),
 ("m06-graft-file-not-disabled", "C13", "git/git.go", '\t\t"GIT_GRAFT_FILE="+os.DevNull,\n', ""),
 ("m34-for-each-ref-limited-to-three-namespaces", "C06", "git/ref_iter.go", '\t\t\t\t"--format=%(objectname) %(objecttype) %(objectsize) %(refname)",\n', '\t\t\t\t"--format=%(objectname) %(objecttype) %(objectsize) %(refname)",\n\t\t\t\t"refs/heads", "refs/tags", "refs/remotes",\n'),
 ("m35-rev-list-no-walk-unsorted-for-tags", "C01", "git/obj_iter.go", '"rev-list", "--objects", "--stdin", "--date-order"', '"rev-list", "--objects", "--stdin", "--date-order", "--no-object-names", "--max-parents=2"'),
 ("m07-depth-as-sum", "C03", "sizes/sizes.go", "\ts.MaxAncestorDepth.AdjustMaxIfNecessary(s2.MaxAncestorDepth)", "\ts.MaxAncestorDepth.Increment(s2.MaxAncestorDepth)"),
 ("m08-path-separator-not-counted", "C04", "sizes/sizes.go", "(counts.NewCount32(uint64(len(filename))) + 1).Plus(s2.MaxPathLength)", "(counts.NewCount32(uint64(len(filename))) + 0).Plus(s2.MaxPathLength)"),
 ("m10-wait-error-ignored", "C10", "git/obj_iter.go", "\t\treturn missingHeader, false, iter.p.Wait()", "\t\t_ = iter.p.Wait()\n\t\treturn missingHeader, false, nil"),
 ("m12-roots-do-not-disable-refs", "C06", "git-sizer.go", "rgb.Finish(len(flags.Args()) == 0)", "rgb.Finish(true)"),
 ("m13-other-bucket-condition", "C07", "internal/refopts/ref_group.go", "if rg.otherRefGroup != nil && len(symbols) == 1 {", "if rg.otherRefGroup != nil && len(symbols) <= 2 {"),
 ("m14-count64-wraps", "C05", "counts/counts.go", "func (n1 Count64) Plus(n2 Count64) Count64 {\n\tn := n1 + n2\n\tif n < n1 {", "func (n1 Count64) Plus(n2 Count64) Count64 {\n\tn := n1 + n2\n\tif n < n1 && n2 < 1<<62 {"),
 ("m15-alert-boundary", "C11", "sizes/output.go", "\tif alert > 30 {", "\tif alert >= 30 {"),
 ("m16-critical-not-in-family", "C14", "git-sizer.go", '\t\t!flags.Changed("critical") {', '\t\ttrue {'),
 ("m17-footnotes-not-deduplicated", "C19", "sizes/footnotes.go", "\tindex, ok := f.indexes[footnote]\n\tif !ok {", "\tindex, ok := f.indexes[footnote]\n\tif !ok || index > 1 {"),
 ("m21-continuation-lines-read-as-headers", "C16", "git/obj_head_iter.go", "\theader := iter.data\n", '\theader := strings.TrimLeft(iter.data, " ")\n'),
 ("m24-progress-on-stdout", "C18", "git-sizer.go", "meter.NewProgressMeter(stderr, 100*time.Millisecond)", "meter.NewProgressMeter(stdout, 100*time.Millisecond)"),
 ("m25-date-order-dropped", "C03", "git/obj_iter.go", 'repo.GitCommand("rev-list", "--objects", "--stdin", "--date-order")', 'repo.GitCommand("rev-list", "--objects", "--stdin")'),
 ("m26-tag-listener-order", "C09", "sizes/graph.go", "\t\t\tr.size.TagDepth.Increment(size.TagDepth)\n\t\t\tr.pending--", "\t\t\tr.size.TagDepth.AdjustMaxIfNecessary(size.TagDepth)\n\t\t\tr.pending--"),
 ("m27-tree-listener-skips-links", "C04", "sizes/sizes.go", "\ts.ExpandedLinkCount.Increment(s2.ExpandedLinkCount)\n\ts.ExpandedSubmoduleCount", "\ts.ExpandedSubmoduleCount"),
 ("m28-walk-unselected-refs", "C01", "sizes/graph.go", "\t\t\t\tif !root.Walk() {\n\t\t\t\t\tcontinue\n\t\t\t\t}\n", ""),
 ("m29-threshold-config-ignored-when-names-given", "C14", "git-sizer.go", '\tif !flags.Changed("names") {', '\tif !flags.Changed("names") && !flags.Changed("json") {'),
 ("m30-shallow-check-removed", "C13", "git/git.go", "\tif !full {\n", "\tif false && !full {\n"),
 # m31 (gitDir not joined with path) was an equivalent mutant: path is always "." so filepath.Join(".", x) == x
 ("m32-saturated-not-forced", "C05", "sizes/output.go", "\tvalue, overflow := i.value.ToUint64()\n\tif overflow {\n\t\treturn \"!!!!!!!!!!!!!!!!!!!!!!!!!!!!!!\", true\n\t}\n\talert", "\tvalue, _ := i.value.ToUint64()\n\talert"),
 ("m33-config-value-trimmed", "C15", "git/gitconfig.go", "\t\t\tvalue = string(record[keyEnd+1:])", "\t\t\tvalue = strings.TrimSpace(string(record[keyEnd+1:]))"),
]
def main():
    out = "/verif/sensitivity"
    wt = tempfile.mkdtemp(prefix="/tmp/mkmut-")
    subprocess.run(["git","-C","/repo","worktree","add","-q","--detach",wt,"HEAD"],check=True)
    lines=[]
    try:
        for name, prop, f, old, new in MUT:
            p=os.path.join(wt,f)
            s=open(p).read()
            if old not in s:
                print("SKIP (pattern not found):", name); continue
            s2=s.replace(old,new,1)
            if "strings." in new and '"strings"' not in s2:
                s2=s2.replace('import (\n','import (\n\t"strings"\n',1)
            open(p,"w").write(s2)
            r=subprocess.run(["gofmt","-l",f],cwd=wt,capture_output=True,text=True)
            subprocess.run(["gofmt","-w",f],cwd=wt)
            d=subprocess.run(["git","-C",wt,"diff"],capture_output=True,text=True).stdout
            open(os.path.join(out,name+".diff"),"w").write(d)
            subprocess.run(["git","-C",wt,"checkout","--","."],check=True)
            lines.append(f"/verif/sensitivity/{name}.diff {prop} 12")
    finally:
        subprocess.run(["git","-C","/repo","worktree","remove","--force",wt])
        shutil.rmtree(wt,ignore_errors=True)
    open("/verif/sensitivity/handmade.list","w").write("\n".join(lines)+"\n")
    print(len(lines),"mutants written")
main()
