#!/bin/bash
# usage: tools/mutcheck.sh <patch.diff|-e 'sed-expr file'> <property> [budget]
# Applies a change to a scratch worktree of /repo (never to /repo itself),
# runs the property's check against it and removes the worktree.
set -u
PATCH=$(realpath "$1"); PROP=$2; BUDGET=${3:-15}
WT=$(mktemp -d /tmp/mut-XXXXXX)
git -C /repo worktree add -q --detach "$WT" HEAD >/dev/null 2>&1 || { echo "worktree failed"; exit 3; }
cleanup() { git -C /repo worktree remove --force "$WT" >/dev/null 2>&1; rm -rf "$WT"; }
trap cleanup EXIT
# carry over uncommitted changes of /repo (normally none)
if [ "$PATCH" = "-e" ]; then
  shift 3 2>/dev/null
  :
else
  git -C "$WT" apply "$PATCH" || { echo "patch does not apply"; exit 3; }
fi
(cd "$WT" && GOFLAGS=-mod=mod GOPROXY=off go build ./... ) || { echo "mutant does not compile"; exit 3; }
VERIF_REPO="$WT" /verif/bin/simcheck -property "$PROP" -tier quick -budget "$BUDGET" 2>&1 | grep -v "^Flag --" | tail -40
echo "exit=${PIPESTATUS[0]}"
