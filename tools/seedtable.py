#!/usr/bin/env python3
"""Print the markdown table of /verif/seeded/*/meta.json (used in DESIGN.md 7.5)."""
import json,glob,os
rows=[]
for d in sorted(glob.glob('/verif/seeded/*/')):
    mp=os.path.join(d,'meta.json')
    if not os.path.exists(mp): continue
    m=json.load(open(mp))
    def fmt(k,v):
        if v.startswith('caught'): return '%s %s'%(k,v.replace('caught','').strip('[]'))
        if v.startswith('missed at first'): return '%s (after strengthening)'%k
        return '%s **missed**'%k
    checks='; '.join(fmt(k,v) for k,v in m.get('checks_run',{}).items())
    need=m.get('needs_to_manifest','')
    if m.get('strengthening'): need+=' — missed at first by %s; strengthening: %s'%(m.get('missed_at_first_by'),m['strengthening'])
    rows.append('| %s | %s | %s | %s |'%(m['id'], m.get('breaks_property','?'), need.replace('|','\\|'), checks))
print('| id | breaks | what it needs to manifest (and what was strengthened) | caught by (final run) |')
print('|---|---|---|---|')
print('\n'.join(rows))
