#!/usr/bin/env python3
"""Print the markdown table of /verif/seeded/*/meta.json (used in DESIGN.md 7.5)."""
import json,glob,os
rows=[]
for d in sorted(glob.glob('/verif/seeded/*/')):
    mp=os.path.join(d,'meta.json')
    if not os.path.exists(mp): continue
    m=json.load(open(mp))
    checks='; '.join('%s %s'%(k,v.replace('caught','').strip('[]') if v.startswith('caught') else '**missed**') for k,v in m.get('checks_run',{}).items())
    rows.append('| %s | %s | %s | %s |'%(m['id'], m.get('breaks_property','?'), m.get('needs_to_manifest','').replace('|','\\|'), checks))
print('| id | breaks | what it needs to manifest (and what was strengthened) | caught by (final run) |')
print('|---|---|---|---|')
print('\n'.join(rows))
