#!/usr/bin/env python3
"""Generate /verif/MANIFEST.json from the table below (kept in one place so
that the manifest is always valid and consistent)."""
import json, os, subprocess, sys

HOME = os.path.dirname(os.path.dirname(os.path.abspath(__file__)))

TRUSTED = ("Trusted base: go1.26.8 testing/synctest (fake clock, quiescence), rapid v1.3.0 (choice source, shrinking), "
           "real git 2.39.5 for one-shot queries and conformance, the SimGit peers (/verif/sim/peers.go, revlist.go) and the "
           "reference model (/verif/sim/oracle.go, selection.go). A clean batch is evidence, not proof.")

# id -> (level, technique, text, design_ref, note)
CHECKS = {
    "C01": ("exploration", "deterministic simulation: seeded worlds + simulated git peers (order/chunk/delay plans) vs. big-integer reference model",
            "Seeded search over generated repositories x root selections x peer schedules; every run is compared field by field with an independent model, and the traffic at the simulated git boundary (roots fed to rev-list, objects requested from cat-file) is checked as an invariant.", "4 C01", TRUSTED),
    "C02": ("exploration", "deterministic simulation: seeded worlds + simulated git peers, delivery position of the maximum varied by the plan, vs. reference model",
            "Seeded search; maxima compared with the model while the plan moves the maximal object through the delivery order.", "4 C02", TRUSTED),
    "C03": ("exploration", "deterministic simulation: commit delivery drawn from the linear extensions of child-before-parent, tags in any order; Graph-feed enumeration of every order for small DAGs; vs. longest-chain model",
            "Seeded search over DAGs x timestamp assignments x delivery orders; exhaustive order enumeration for small graphs through the Graph API driver.", "4 C03", TRUSTED),
    "C04": ("exploration", "deterministic simulation: tree delivery orders (deferred listeners), Graph-feed enumeration of every tree permutation for small DAGs, vs. recursive-expansion model in big integers",
            "Seeded search over tree DAGs x delivery orders; each of the seven dimensions judged independently.", "4 C04", TRUSTED),
    "C05": ("exploration", "deterministic simulation with a simulated disk: declared object sizes and bombs served by simulated git peers, vs. min(true, capacity) in big integers; work counted at the simulated boundary; scaling pairs (W and 2W entries per tree) timed in processor time on the real binary",
            "Seeded search over worlds whose true values straddle 2^32 and 2^64 (only the simulated peers can supply them); value, infinity sign, concern marker and JSON capacity checked; work measured as requests seen by the simulated cat-file, and as user+system time of the real binary on a bomb of 3 trees at W and 2W entries (every run starts with one such pair). The all-operand-pairs arithmetic law is a pure function and is not decided by this technique.", "4 C05", TRUSTED),
    "C06": ("exploration", "deterministic simulation: option sequences (exhaustive to length 2, seeded beyond) observed at the simulated rev-list stdin and --show-refs, vs. last-matching-rule fold",
            "Deterministic prefix plus seeded search; the selection is observed where it takes effect (the roots fed to the simulated rev-list) and in the census.", "4 C06", TRUSTED),
    "C07": ("exploration", "deterministic simulation: generated refgroup forests (real git config as peer) x reference sets, three output formats vs. recursive tally model",
            "Seeded search over refgroup forests up to 16 levels; git's own config listing is the input of the oracle.", "4 C07", TRUSTED),
    "C09": ("exploration", "deterministic simulation, metamorphic: one world under >= 4 delivery schedules / root orders / storage layouts (loose, packed-refs, repacked, bitmapped pack + loose) / commit dates; Graph-feed enumeration of every order",
            "All numeric fields must agree across variants and with the model; small graphs are fed to sizes.Graph in every order.", "4 C09", TRUSTED),
    "C10": ("fault_enumeration", "deterministic simulation with fault injection: every output offset x exit/signal of each simulated git process on small worlds under three pipe regimes, every cut position of a cat-file --batch stream that ends early with exit status 0, plus seeded fault sequences, one-shot failures through a git proxy, invalid input, failing stdout; real binary behind the proxy as second judge",
            "Single-fault points of small worlds are enumerated completely (quick tier: bounded per world, thorough: complete); multi-fault sequences, chunking and delays are explored by seeded search; hangs are detected exactly by the fake-time watchdog.", "4 C10", TRUSTED + " Engine B samples real process semantics (exit statuses, signals) through /verif/bin/gitshim."),
    "C08": ("exploration", "deterministic simulation: adversarial delivery orders decide which witness and which path is recorded; model witness sets + real git rev-parse as judges",
            "Seeded search over worlds with objects reachable only through tags, tree/blob roots and hostile names, in all three formats and name styles; each cited id must be a witness in the model and each description must resolve with real git.", "4 C08", TRUSTED),
    "C11": ("exploration", "deterministic simulation used as a world supplier: the simulated disk steers measurements onto k*reference boundaries; relations across table / JSON v1 / JSON v2 and across thresholds",
            "Multi-run relations per world (three formats, 3-6 thresholds); exact rational arithmetic for visibility and concern markers; numerals checked against the JSON value by the half-unit rule. The property is a pure function of the measurement vector; the simulator adds worlds and run-to-run relations only.", "4 C11", TRUSTED),
    "C13": ("exploration", "real-process simulation (engine B): the real binary behind a recording git proxy, started in up to 14 addressing modes (incl. linked worktrees, symlinked cwd with logical $PWD, git -C) on repositories with replace refs, grafts and core.useReplaceRefs spelled out; model on the stored graph",
            "Seeded search over repositories x addressing modes with real git; no schedule is involved (environment configuration), so the technique contributes seeded worlds, the model and replayable scenarios.", "4 C13", TRUSTED + " Real git 2.39.5 semantics for replace refs, grafts, worktrees and shallow clones."),
    "C14": ("exploration", "deterministic simulation: paired CLI runs under one peer schedule, gitconfig answers from real git (a peer), progress compared on the fake clock",
            "Seeded search over config scopes x values (valid and invalid) x option sequences; every pair must agree byte for byte.", "4 C14", TRUSTED),
    "C15": ("exploration", "deterministic simulation: config scopes with foreign entries of every value shape, real git config as the peer whose bytes the oracle parses NUL-first",
            "Seeded search over configuration contents; observed through tallies and --include=@G acceptance.", "4 C15", TRUSTED),
    "C16": ("exploration", "fault injection at the parser API (corruption faults on valid generated objects) + truncated listing streams through the real reader loops",
            "Seeded corruption of valid bodies (every truncation point for small objects) under recover and a watchdog; losslessness against the model's own parser. Coverage-guided fuzzing over all byte strings is not this technique and is not claimed.", "4 C16", TRUSTED),
    "C17": ("exploration", "real-process simulation under the race detector (engine B: -race at GOMAXPROCS 1/16, plain binary x12 at GOMAXPROCS 2-16 with proxy jitter and slowed config lookups) + in-process -race runs under different chunk/delay plans and 8 goroutine schedules decided at yield points compiled into copies of git-sizer's sources; repository digest before/after",
            "In the real binary schedules are sampled (the Go scheduler and the OS choose); in the in-process engine the plan decides who proceeds at every lock, channel operation and goroutine start (GOMAXPROCS=1, yields by channel hand-off), and stdout must be identical under all of them. The race detector is happens-before based, so it needs the accesses to occur, not a lucky interleaving.", "4 C17", TRUSTED + " Go race detector."),
    "C18": ("exploration", "deterministic simulation of the progress meter: baton scheduler over worker / ticker goroutines parked at hook H1 / fake clock, online invariants on every frame; whole-system runs with peers slowed on the fake clock",
            "Seeded search over schedules including the window 'tick received, lock not yet taken' for current and stale tickers; about 10^4 schedules per second.", "4 C18", TRUSTED + " Hook H1 (build tag verif) in meter/meter.go."),
    "C19": ("exploration", "deterministic simulation used as a name supplier: hostile bytes arrive from the simulated peers; strict JSON / table structure checks against a plain-name twin world",
            "Seeded search over hostile names; the property is a pure function of the names, the simulator contributes delivery and the twin relation.", "4 C19", TRUSTED),
}

NOT_APPLICABLE = {
    "C12": "Humaner.FormatNumber is a pure function of one uint64 and a constant prefix table: no schedule, clock, stream, fault or second party can influence it, and its quantifier (all 2^64 values) can only be met by input generation, which is a different technique (DESIGN.md section 6).",
}

def main():
    props = [json.loads(l)["id"] for l in open(os.path.join(HOME, "properties.jsonl"))]
    checks = []
    for pid in props:
        if pid not in CHECKS:
            continue
        level, technique, text, ref, note = CHECKS[pid]
        checks.append({
            "property_id": pid,
            "quick_cmd": f"./bin/simcheck -property {pid} -tier quick",
            "thorough_cmd": f"./bin/simcheck -property {pid} -tier thorough",
            "evidence_file": f"evidence/{pid}.json",
            "replay_cmd_template": f"./bin/simcheck -property {pid} -replay {{path}}",
            "engine": "simcheck",
            "level_claimed": {"category": level, "text": text, "design_ref": "DESIGN.md section " + ref},
            "level_note": note,
            "technique": technique,
        })
    na = []
    for pid in props:
        if pid in CHECKS:
            continue
        reason = NOT_APPLICABLE.get(pid, "not claimed yet: the check for this property is still being built (see DESIGN.md)")
        na.append({"property_id": pid, "reason": reason})
    hook_commits = subprocess.run(["git", "-C", "/repo", "log", "--format=%H", "--grep=^verif hook"], capture_output=True, text=True).stdout.split()
    m = {
        "version": 1,
        "setup_cmd": "./setup.sh",
        "hooks": {
            "guard": "verif",
            "enable": "go1.26.8 test -c -tags verif -overlay <glue> -modfile <go.mod + harness requires> (see /verif/buildsim.sh); engine B builds /repo with the default toolchain and no tag",
            "baseline_off_cmd": "cd /repo && GOFLAGS=-mod=mod GOPROXY=off go test -json -vet=off -count=1 -timeout 25m ./...",
            "source_commits": hook_commits,
            "add_only": True,
        },
        "engines": [
            {"name": "simcheck", "path": "bin/simcheck", "serves_properties": [c["property_id"] for c in checks],
             "kind_free_text": "driver: rebuilds the engines from /repo's working tree, runs 16 seeded worker processes of the in-process simulator (engine A: git-sizer's mainImplementation in a testing/synctest bubble against simulated git peers) and, where a property needs real processes, the real binary behind a fault-injecting git proxy (engine B); replays every violation in a fresh process"},
        ],
        "checks": checks,
        "not_applicable": na,
        "notes": "VERIF_SEED selects the seed, VERIF_BUDGET_S overrides the search budget, VERIF_QUOTA the number of rapid batches every worker runs whatever the speed of the machine (the top-level counts of an evidence file describe that quota part, coverage.beyond_quota what the rest of the time budget added; DESIGN.md 2.7, 7.8). Exit 0 clean, 1 violation (VIOLATION line), 2 trouble with the machinery itself. Known findings and repaired defects are listed in known_findings.json (status 'known' / 'fixed'); a known finding is identified by a shape predicate in code (sim/props_c08.go) and reported as a KNOWN-FINDING line, anything else of the same class is still a VIOLATION. Independently written breaking changes are under seeded/, hand-written mutants and reverts of the fixes under sensitivity/, the last regression over all of them in seeded/regression.txt.",
    }
    json.dump(m, open(os.path.join(HOME, "MANIFEST.json"), "w"), indent=1)
    print("MANIFEST.json written:", len(checks), "checks,", len(na), "not claimed")

if __name__ == "__main__":
    main()
