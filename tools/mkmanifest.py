#!/usr/bin/env python3
"""Generate /verif/MANIFEST.json from the table below (kept in one place so
that the manifest is always valid and consistent)."""
import json, os, subprocess, sys

HOME = os.path.dirname(os.path.dirname(os.path.abspath(__file__)))

TRUSTED = ("Trusted base: go1.26.8 testing/synctest (fake clock, quiescence), rapid v1.3.0 (choice source, shrinking), "
           "real git 2.39.5 for one-shot queries and conformance, the SimGit peers (/verif/sim/peers.go, revlist.go) and the "
           "reference model (/verif/sim/oracle.go, selection.go). A clean batch is evidence, not proof.")

# id -> (level, technique, text, design_ref, note)
CHECKS = {
    "C01": ("exploration", "deterministic simulation: seeded worlds + simulated git peers (order/chunk/delay plans) vs. big-integer reference model",
            "Seeded search over generated repositories x root selections x peer schedules; every run is compared field by field with an independent model, and the traffic at the simulated git boundary (roots fed to rev-list, objects requested from cat-file) is checked as an invariant.", "4 C01", TRUSTED),
    "C02": ("exploration", "deterministic simulation: seeded worlds + simulated git peers, delivery position of the maximum varied by the plan, vs. reference model",
            "Seeded search; maxima compared with the model while the plan moves the maximal object through the delivery order.", "4 C02", TRUSTED),
    "C03": ("exploration", "deterministic simulation: commit delivery drawn from the linear extensions of child-before-parent, tags in any order, vs. longest-chain model",
            "Seeded search over DAGs x timestamp assignments x delivery orders; exhaustive order enumeration for small graphs through the Graph API driver.", "4 C03", TRUSTED),
    "C04": ("exploration", "deterministic simulation: tree delivery orders (deferred listeners) vs. recursive-expansion model in big integers",
            "Seeded search over tree DAGs x delivery orders; each of the seven dimensions judged independently.", "4 C04", TRUSTED),
}

NOT_APPLICABLE = {
    "C12": "Humaner.FormatNumber is a pure function of one uint64 and a constant prefix table: no schedule, clock, stream, fault or second party can influence it, and its quantifier (all 2^64 values) can only be met by input generation, which is a different technique (DESIGN.md section 6).",
}

def main():
    props = [json.loads(l)["id"] for l in open(os.path.join(HOME, "properties.jsonl"))]
    checks = []
    for pid in props:
        if pid not in CHECKS:
            continue
        level, technique, text, ref, note = CHECKS[pid]
        checks.append({
            "property_id": pid,
            "quick_cmd": f"./bin/simcheck -property {pid} -tier quick",
            "thorough_cmd": f"./bin/simcheck -property {pid} -tier thorough",
            "evidence_file": f"evidence/{pid}.json",
            "replay_cmd_template": f"./bin/simcheck -property {pid} -replay {{path}}",
            "engine": "simcheck",
            "level_claimed": {"category": level, "text": text, "design_ref": "DESIGN.md section " + ref},
            "level_note": note,
            "technique": technique,
        })
    na = []
    for pid in props:
        if pid in CHECKS:
            continue
        reason = NOT_APPLICABLE.get(pid, "not claimed yet: the check for this property is still being built (see DESIGN.md)")
        na.append({"property_id": pid, "reason": reason})
    hook_commits = subprocess.run(["git", "-C", "/repo", "log", "--format=%H", "--grep=^verif hook"], capture_output=True, text=True).stdout.split()
    m = {
        "version": 1,
        "setup_cmd": "./setup.sh",
        "hooks": {
            "guard": "verif",
            "enable": "go1.26.8 test -c -tags verif -overlay <glue> -modfile <go.mod + harness requires> (see /verif/buildsim.sh); engine B builds /repo with the default toolchain and no tag",
            "baseline_off_cmd": "cd /repo && GOFLAGS=-mod=mod GOPROXY=off go test -json -vet=off -count=1 -timeout 25m ./...",
            "source_commits": hook_commits,
            "add_only": True,
        },
        "engines": [
            {"name": "simcheck", "path": "bin/simcheck", "serves_properties": [c["property_id"] for c in checks],
             "kind_free_text": "driver: rebuilds the engines from /repo's working tree, runs 16 seeded worker processes of the in-process simulator (engine A: git-sizer's mainImplementation in a testing/synctest bubble against simulated git peers) and, where a property needs real processes, the real binary behind a fault-injecting git proxy (engine B); replays every violation in a fresh process"},
        ],
        "checks": checks,
        "not_applicable": na,
        "notes": "VERIF_SEED selects the seed, VERIF_BUDGET_S overrides the search budget. Exit 0 clean, 1 violation (VIOLATION line), 2 trouble with the machinery itself.",
    }
    json.dump(m, open(os.path.join(HOME, "MANIFEST.json"), "w"), indent=1)
    print("MANIFEST.json written:", len(checks), "checks,", len(na), "not claimed")

if __name__ == "__main__":
    main()
