#!/bin/bash
# usage: tools/seedcheck.sh <agent-worktree> <seed-id> <property> [more properties...]
# Confirms an independently written breaking change (compiles, existing tests
# still pass, its demonstration fails with it and passes without it), runs the
# named checks against it, and files it under /verif/seeded/<seed-id>/.
set -u
AG=$(realpath "$1"); ID=$2; shift 2; PROPS="$@"
export GOFLAGS=-mod=mod GOPROXY=off GOSUMDB=off
OUT=/verif/seeded/$ID
mkdir -p $OUT
[ -f $AG/patch.diff ] || (cd $AG && git diff -- . ':!demo' ':!NOTES.md' ':!patch.diff' > patch.diff)
cp $AG/patch.diff $OUT/patch.diff
rm -rf $OUT/demo; cp -r $AG/demo $OUT/demo 2>/dev/null
cp $AG/NOTES.md $OUT/NOTES.md 2>/dev/null
WT=$(mktemp -d /tmp/seedchk-XXXXXX)
git -C /repo worktree add -q --detach "$WT" HEAD || exit 3
cleanup() { git -C /repo worktree remove --force "$WT" >/dev/null 2>&1; rm -rf "$WT"; }
trap cleanup EXIT
cd $WT
run_tests() { go build -o bin/git-sizer . && go test -vet=off -count=1 -json ./... 2>/dev/null | python3 -c "
import sys,json
res={}
for l in sys.stdin:
    try: e=json.loads(l)
    except: continue
    if e.get('Test') and e.get('Action') in('pass','fail'): res[e['Package'].split('/')[-1]+'::'+e['Test']]=e['Action']
print(len([k for k,v in res.items() if v=='pass']), 'pass', sorted(k for k,v in res.items() if v=='fail'))"; }
run_demo() {
  if [ -f demo/run.sh ]; then (bash demo/run.sh >/tmp/seed-demo.log 2>&1); echo $?;
  else
    # Go test file(s): NOTES.md says where they go; default: copy next to the package named in the file
    rc=0
    for f in demo/*_test.go; do
      pkg=$(grep -m1 '^package ' $f | awk '{print $2}')
      case "$pkg" in main|main_test) d=.;; *) d=$(grep -rl --include=*.go "^package ${pkg%_test}\$" . | grep -v demo | head -1 | xargs dirname);; esac
      cp $f $d/zz_demo_$(basename $f)
      (cd $d && go test -vet=off -count=1 -run "$(grep -o 'func Test[A-Za-z0-9_]*' $f | sed 's/func //' | paste -sd'|')" . >/tmp/seed-demo.log 2>&1) || rc=1
      rm -f $d/zz_demo_$(basename $f)
    done
    echo $rc
  fi
}
cp -r $OUT/demo ./demo 2>/dev/null
BASE_TESTS=$(run_tests)
DEMO_CLEAN=$(run_demo)
git apply $OUT/patch.diff || { echo "PATCH DOES NOT APPLY"; exit 3; }
go build ./... || { echo "DOES NOT COMPILE"; exit 3; }
MUT_TESTS=$(run_tests)
DEMO_MUT=$(run_demo)
echo "tests  unmodified: $BASE_TESTS"
echo "tests  with patch: $MUT_TESTS"
echo "demo   unmodified: exit $DEMO_CLEAN   with patch: exit $DEMO_MUT"
rm -rf demo bin
RES=""
for P in $PROPS; do
  out=$(VERIF_REPO="$WT" /verif/bin/simcheck -property "$P" -tier quick 2>&1 | grep -v "^Flag --")
  if echo "$out" | grep -q "^VIOLATION property=$P"; then
    cls=$(echo "$out" | grep -m1 "violation class" | sed 's/violation class: //')
    echo "CAUGHT by $P [$cls]"; RES="$RES $P:caught[$cls]"
    rp=$(echo "$out" | grep -m1 "^VIOLATION" | sed 's/.*replay=//'); [ -f "$rp" ] && cp "$rp" $OUT/replay-$P.json
  else
    echo "MISSED by $P: $(echo "$out" | grep -m1 evaluations | cut -c1-160)"; RES="$RES $P:missed"
  fi
  rm -rf /verif/replays
done
python3 - "$OUT" "$ID" "$BASE_TESTS" "$MUT_TESTS" "$DEMO_CLEAN" "$DEMO_MUT" "$RES" "$PROPS" <<'PY'
import sys,json,os
out,id,bt,mt,dc,dm,res,props=sys.argv[1:9]
meta={}
mp=os.path.join(out,'meta.json')
if os.path.exists(mp): meta=json.load(open(mp))
meta.update({"id":id,"breaks_property":props.split()[0],"existing_tests_unmodified":bt,"existing_tests_with_patch":mt,
 "demo_exit_unmodified":int(dc),"demo_exit_with_patch":int(dm),
 "confirmed": bt==mt and dc=="0" and dm!="0",
 "checks_run":{r.split(':')[0]:r.split(':',1)[1] for r in res.split()},
 "what_was_run":"tools/seedcheck.sh: patch applied to a scratch worktree of /repo HEAD; go build; go test -vet=off -count=1 ./... before and after; the demonstration before and after; ./bin/simcheck -property <P> -tier quick with VERIF_REPO pointing at the patched worktree"})
json.dump(meta,open(mp,'w'),indent=1)
print(json.dumps(meta)[:400])
PY
