// yieldinst writes instrumented copies of git-sizer's source files in
// which a call yieldpt.P(<id>) precedes every statement where goroutines
// of git-sizer synchronise: mutex Lock/RLock calls, channel sends and
// receives, select statements, and follows every go statement. The copies
// are compiled into the in-process engine through `go test -overlay`; the
// files in /repo are never touched. With no schedule installed P() is a
// load and a branch.
//
// usage: yieldinst -repo <dir> -out <dir> -pkgs .,sizes,git,...
// prints the overlay entries ("original":"copy") as a JSON object.
package main

import (
	"bytes"
	"encoding/json"
	"flag"
	"fmt"
	"go/ast"
	"go/format"
	"go/parser"
	"go/token"
	"os"
	"path/filepath"
	"strconv"
	"strings"
)

const importPath = "verif/sim/yieldpt"

var nextID = 1

type site struct {
	ID   int    `json:"id"`
	File string `json:"file"`
	Line int    `json:"line"`
	Kind string `json:"kind"`
}

var sites []site

func main() {
	repo := flag.String("repo", "/repo", "git-sizer tree")
	out := flag.String("out", "", "directory for the instrumented copies")
	pkgs := flag.String("pkgs", ".,sizes,git,meter,internal/refopts", "package directories, relative to the tree")
	flag.Parse()
	if *out == "" {
		fmt.Fprintln(os.Stderr, "yieldinst: -out is required")
		os.Exit(2)
	}
	overlay := map[string]string{}
	for _, pkg := range strings.Split(*pkgs, ",") {
		dir := filepath.Join(*repo, pkg)
		ents, err := os.ReadDir(dir)
		if err != nil {
			continue // a package that does not exist (any more) is not an error
		}
		for _, e := range ents {
			name := e.Name()
			if e.IsDir() || !strings.HasSuffix(name, ".go") || strings.HasSuffix(name, "_test.go") {
				continue
			}
			src := filepath.Join(dir, name)
			dst := filepath.Join(*out, pkg, name)
			changed, err := instrument(src, dst, filepath.Join(pkg, name))
			if err != nil {
				fmt.Fprintf(os.Stderr, "yieldinst: %s: %v\n", src, err)
				os.Exit(2)
			}
			if changed {
				overlay[src] = dst
			}
		}
	}
	b, _ := json.MarshalIndent(sites, "", " ")
	os.WriteFile(filepath.Join(*out, "sites.json"), b, 0o644)
	ob, _ := json.Marshal(overlay)
	os.Stdout.Write(ob)
}

func instrument(src, dst, rel string) (bool, error) {
	fset := token.NewFileSet()
	f, err := parser.ParseFile(fset, src, nil, parser.ParseComments)
	if err != nil {
		return false, err
	}
	before := nextID
	ast.Inspect(f, func(n ast.Node) bool {
		switch b := n.(type) {
		case *ast.BlockStmt:
			b.List = rewrite(fset, rel, b.List)
		case *ast.CaseClause:
			b.Body = rewrite(fset, rel, b.Body)
		case *ast.CommClause:
			b.Body = rewrite(fset, rel, b.Body)
		}
		return true
	})
	if nextID == before {
		return false, nil
	}
	// import
	spec := &ast.ImportSpec{Name: ast.NewIdent("yieldpt"), Path: &ast.BasicLit{Kind: token.STRING, Value: strconv.Quote(importPath)}}
	decl := &ast.GenDecl{Tok: token.IMPORT, Specs: []ast.Spec{spec}}
	f.Decls = append([]ast.Decl{decl}, f.Decls...)
	// comments are dropped from the copy (their positions would no longer
	// fit); build constraints are kept by hand
	var head bytes.Buffer
	for _, cg := range f.Comments {
		if cg.End() >= f.Package {
			break
		}
		for _, c := range cg.List {
			if strings.HasPrefix(c.Text, "//go:build") || strings.HasPrefix(c.Text, "// +build") {
				head.WriteString(c.Text + "\n")
			}
		}
	}
	f.Comments = nil
	f.Doc = nil
	var buf bytes.Buffer
	if head.Len() > 0 {
		buf.Write(head.Bytes())
		buf.WriteString("\n")
	}
	if err := format.Node(&buf, fset, f); err != nil {
		return false, err
	}
	if err := os.MkdirAll(filepath.Dir(dst), 0o755); err != nil {
		return false, err
	}
	return true, os.WriteFile(dst, buf.Bytes(), 0o644)
}

func point(fset *token.FileSet, rel, kind string, at token.Pos) ast.Stmt {
	id := nextID
	nextID++
	sites = append(sites, site{ID: id, File: rel, Line: fset.Position(at).Line, Kind: kind})
	fn := "P"
	if kind == "lock" {
		fn = "L" // yield point before Lock/RLock: also calls yieldpt.LockHook
	}
	return &ast.ExprStmt{X: &ast.CallExpr{
		Fun:  &ast.SelectorExpr{X: ast.NewIdent("yieldpt"), Sel: ast.NewIdent(fn)},
		Args: []ast.Expr{&ast.BasicLit{Kind: token.INT, Value: strconv.Itoa(id)}},
	}}
}

func isRecv(e ast.Expr) bool {
	for {
		p, ok := e.(*ast.ParenExpr)
		if !ok {
			break
		}
		e = p.X
	}
	u, ok := e.(*ast.UnaryExpr)
	return ok && u.Op == token.ARROW
}

// rewrite inserts yield points into one statement list.
func rewrite(fset *token.FileSet, rel string, list []ast.Stmt) []ast.Stmt {
	var out []ast.Stmt
	for _, st := range list {
		inner := st
		if l, ok := st.(*ast.LabeledStmt); ok {
			inner = l.Stmt
		}
		kind := ""
		after := false
		switch s := inner.(type) {
		case *ast.ExprStmt:
			if c, ok := s.X.(*ast.CallExpr); ok {
				if sel, ok := c.Fun.(*ast.SelectorExpr); ok && len(c.Args) == 0 && (sel.Sel.Name == "Lock" || sel.Sel.Name == "RLock") {
					kind = "lock"
				}
			}
			if isRecv(s.X) {
				kind = "recv"
			}
		case *ast.SendStmt:
			kind = "send"
		case *ast.AssignStmt:
			if len(s.Rhs) == 1 && isRecv(s.Rhs[0]) {
				kind = "recv"
			}
		case *ast.SelectStmt:
			kind = "select"
		case *ast.GoStmt:
			kind, after = "go", true
		}
		if kind == "" || inner != st {
			// labelled statements are left alone (a goto/continue target
			// must stay attached to its statement)
			out = append(out, st)
			continue
		}
		if after {
			out = append(out, st, point(fset, rel, kind, st.Pos()))
		} else {
			out = append(out, point(fset, rel, kind, st.Pos()), st)
		}
	}
	return out
}
