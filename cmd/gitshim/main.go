// gitshim: a fault-injecting, recording proxy named `git`, put first on
// PATH in front of the real git. Plain Go, standard library only.
//
// Environment:
//
//	VERIF_REAL_GIT    path of the real git (required)
//	VERIF_SHIM_PLAN   JSON file with the plan; absent → exec real git at once
//	VERIF_SHIM_STATE  directory for occurrence counters
//	VERIF_SHIM_LOG    JSON-lines log of every invocation (optional)
//
// Plan: {"oneshot":[{"match":"config --get sizer.names","nth":0,"status":3,
// "signal":0,"at_byte":-1,"delay_ms":0,"chunk":0}]}
// A rule applies to the nth (0-based) invocation whose space-joined argv
// (without argv[0]) contains Match. The proxy runs real git with the same
// stdin, lets AtByte bytes of its stdout through (-1 = all; in chunks of
// Chunk bytes with DelayMS between them when set), then exits with Status
// or kills itself with Signal (both 0 = behave normally, only re-chunk).
package main

import (
	"crypto/sha1"
	"encoding/hex"
	"encoding/json"
	"fmt"
	"io"
	"os"
	"os/exec"
	"path/filepath"
	"strings"
	"syscall"
	"time"
)

type rule struct {
	Match   string `json:"match"`
	Nth     int    `json:"nth"`
	Status  int    `json:"status"`
	Signal  int    `json:"signal"`
	AtByte  int    `json:"at_byte"`
	DelayMS int    `json:"delay_ms"`
	Chunk   int    `json:"chunk"`
	// NoStdin: close stdin without reading it (fails before reading).
	NoStdin bool `json:"no_stdin"`
}

type plan struct {
	Oneshot []rule `json:"oneshot"`
}

func die(format string, a ...interface{}) {
	fmt.Fprintf(os.Stderr, "gitshim: "+format+"\n", a...)
	os.Exit(125)
}

func occurrence(stateDir, key string) int {
	if stateDir == "" {
		return 0
	}
	os.MkdirAll(stateDir, 0o755)
	h := sha1.Sum([]byte(key))
	f, err := os.OpenFile(filepath.Join(stateDir, hex.EncodeToString(h[:8])), os.O_CREATE|os.O_WRONLY|os.O_APPEND, 0o644)
	if err != nil {
		die("state: %v", err)
	}
	defer f.Close()
	if _, err := f.Write([]byte{'x'}); err != nil {
		die("state: %v", err)
	}
	st, err := f.Stat()
	if err != nil {
		die("state: %v", err)
	}
	return int(st.Size()) - 1
}

func logInvocation(sig string, extra map[string]interface{}) {
	p := os.Getenv("VERIF_SHIM_LOG")
	if p == "" {
		return
	}
	rec := map[string]interface{}{"argv": os.Args[1:], "sig": sig}
	cwd, _ := os.Getwd()
	rec["cwd"] = cwd
	env := map[string]string{}
	for _, kv := range os.Environ() {
		if strings.HasPrefix(kv, "GIT_") {
			i := strings.IndexByte(kv, '=')
			env[kv[:i]] = kv[i+1:]
		}
	}
	rec["env"] = env
	for k, v := range extra {
		rec[k] = v
	}
	b, _ := json.Marshal(rec)
	f, err := os.OpenFile(p, os.O_CREATE|os.O_WRONLY|os.O_APPEND, 0o644)
	if err != nil {
		return
	}
	f.Write(append(b, '\n'))
	f.Close()
}

func main() {
	real := os.Getenv("VERIF_REAL_GIT")
	if real == "" {
		die("VERIF_REAL_GIT not set")
	}
	sig := strings.Join(os.Args[1:], " ")
	planPath := os.Getenv("VERIF_SHIM_PLAN")
	var matched *rule
	if planPath != "" {
		b, err := os.ReadFile(planPath)
		if err != nil {
			die("plan: %v", err)
		}
		var pl plan
		if err := json.Unmarshal(b, &pl); err != nil {
			die("plan: %v", err)
		}
		state := os.Getenv("VERIF_SHIM_STATE")
		for i := range pl.Oneshot {
			r := &pl.Oneshot[i]
			if !strings.Contains(sig, r.Match) {
				continue
			}
			n := occurrence(state, fmt.Sprintf("%d:%s", i, r.Match))
			if (n == r.Nth || r.Nth < 0) && matched == nil {
				matched = r
			}
		}
	}
	if matched == nil {
		logInvocation(sig, nil)
		argv := append([]string{real}, os.Args[1:]...)
		if err := syscall.Exec(real, argv, os.Environ()); err != nil {
			die("exec %s: %v", real, err)
		}
	}
	r := matched
	logInvocation(sig, map[string]interface{}{"fault": r})
	if mark := os.Getenv("VERIF_SHIM_FIRED"); mark != "" && (r.Status != 0 || r.Signal != 0) {
		if f, err := os.OpenFile(mark, os.O_CREATE|os.O_WRONLY|os.O_APPEND, 0o644); err == nil {
			fmt.Fprintf(f, "%s\n", r.Match)
			f.Close()
		}
	}

	cmd := exec.Command(real, os.Args[1:]...)
	cmd.Stderr = os.Stderr
	if r.NoStdin {
		os.Stdin.Close()
		cmd.Stdin = nil
	} else {
		cmd.Stdin = os.Stdin
	}
	out, err := cmd.StdoutPipe()
	if err != nil {
		die("pipe: %v", err)
	}
	if err := cmd.Start(); err != nil {
		die("start: %v", err)
	}
	failing := r.Status != 0 || r.Signal != 0
	limit := r.AtByte
	written := 0
	buf := make([]byte, 65536)
	fail := func() {
		os.Stdout.Close()
		cmd.Process.Kill()
		cmd.Wait()
		if r.Signal != 0 {
			// die of the signal ourselves (default disposition)
			syscall.Kill(os.Getpid(), syscall.Signal(r.Signal))
			time.Sleep(5 * time.Second)
			os.Exit(128 + r.Signal)
		}
		os.Exit(r.Status)
	}
	for {
		if failing && limit >= 0 && written >= limit {
			fail()
		}
		max := len(buf)
		if r.Chunk > 0 && r.Chunk < max {
			max = r.Chunk
		}
		if failing && limit >= 0 && limit-written < max {
			max = limit - written
		}
		n, rerr := out.Read(buf[:max])
		if n > 0 {
			if r.DelayMS > 0 {
				time.Sleep(time.Duration(r.DelayMS) * time.Millisecond)
			}
			if _, werr := os.Stdout.Write(buf[:n]); werr != nil {
				// our reader went away
				cmd.Process.Kill()
				cmd.Wait()
				os.Exit(141)
			}
			written += n
		}
		if rerr != nil {
			if rerr != io.EOF {
				die("read: %v", rerr)
			}
			break
		}
	}
	werr := cmd.Wait()
	if failing {
		// complete output (or output shorter than at_byte), then fail
		fail()
	}
	if werr != nil {
		if ee, ok := werr.(*exec.ExitError); ok {
			if ws, ok := ee.Sys().(syscall.WaitStatus); ok && ws.Signaled() {
				syscall.Kill(os.Getpid(), ws.Signal())
				time.Sleep(5 * time.Second)
			}
			os.Exit(ee.ExitCode())
		}
		os.Exit(1)
	}
	os.Exit(0)
}
