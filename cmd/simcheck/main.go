// simcheck: driver of the deterministic-simulation checks.
//
//	simcheck -property C01 -tier quick
//	simcheck -property C01 -replay replays/C01-xxxx.json
//
// It rebuilds the engines from /repo's current working tree, runs seeded
// workers in parallel, replays every violation in a fresh process, writes
// /verif/evidence/<id>.json and prints
//
//	VIOLATION property=<id> replay=<path>
//
// for each confirmed violation. Exit status: 0 clean, 1 violation,
// 2 trouble with the machinery itself (never reported as a violation).
package main

import (
	"encoding/json"
	"flag"
	"fmt"
	"io"
	"os"
	"os/exec"
	"path/filepath"
	"runtime"
	"sort"
	"strconv"
	"strings"
	"sync"
	"time"
)

type stats struct {
	Property    string             `json:"property"`
	Tier        string             `json:"tier"`
	Seed        uint64             `json:"seed"`
	Worker      int                `json:"worker"`
	Batches     int                `json:"batches"`
	BatchSeeds  []uint64           `json:"batch_seeds"`
	Evaluations int                `json:"evaluations"`
	CLIRuns     int                `json:"cli_runs"`
	Nontrivial  map[string]bool    `json:"nontrivial"`
	Sigs        map[string]bool    `json:"sigs"`
	FaultsFired map[string]int     `json:"faults_fired"`
	Probes      map[string]int     `json:"probes"`
	SimNS       int64              `json:"sim_ns"`
	Conformance map[string]int     `json:"conformance"`
	Samples     []json.RawMessage  `json:"samples"`
	Known       map[string]int     `json:"known_findings"`
	KnownNotes  map[string]string  `json:"known_notes"`
	Violations  []violationRecord  `json:"violations"`
	WallS       float64            `json:"wall_s"`
	Trouble     []string           `json:"trouble"`
	Exhaustive  map[string]bool    `json:"exhaustive"`
	Extra       map[string]float64 `json:"extra"`
	Rule        string             `json:"rule"`
	Components  map[string]string  `json:"components"`
}

type violationRecord struct {
	Class  string `json:"class"`
	Detail string `json:"detail"`
	File   string `json:"file"`
}

type knownFinding struct {
	ID          string `json:"id"`
	Status      string `json:"status"`
	Property    string `json:"property"`
	Class       string `json:"class"`
	Shape       string `json:"shape"`
	Commit      string `json:"commit,omitempty"`
	Description string `json:"description"`
}

type propInfo struct {
	Level       string
	QuickS      int
	ThoroughS   int
	NeedsB      bool // needs the real git-sizer binary
	NeedsRace   bool // needs the -race binaries
	Checks      int  // rapid checks per batch (0 = default 25); small for expensive evaluations
	Quota       int  // rapid batches per worker that the quick tier always runs, whatever the machine's speed (see quotaFor)
	Assumptions []string
}

var commonAssumptions = []string{
	"the SimGit peers answer like git 2.39.5 for the four streaming commands (kept honest by conformance cross-runs against real git, counted in coverage.conformance)",
	"the reference model in /verif/sim/oracle.go and selection.go states what the property demands (it shares no code with git-sizer)",
	"a clean batch of seeded runs is evidence, not proof",
}

var props = map[string]propInfo{
	"C01": {Level: "exploration", QuickS: 20, ThoroughS: 600, Quota: 3},
	"C02": {Level: "exploration", QuickS: 20, ThoroughS: 600, Quota: 3},
	"C03": {Level: "exploration", QuickS: 20, ThoroughS: 600, Quota: 5},
	"C04": {Level: "exploration", QuickS: 20, ThoroughS: 600, Quota: 5},
	"C05": {Level: "exploration", QuickS: 20, ThoroughS: 600, Checks: 10, NeedsB: true, Quota: 3},
	"C06": {Level: "exploration", QuickS: 20, ThoroughS: 600, Quota: 3},
	"C07": {Level: "exploration", QuickS: 20, ThoroughS: 600, Quota: 4},
	"C08": {Level: "exploration", QuickS: 25, ThoroughS: 600, Quota: 4},
	"C09": {Level: "exploration", QuickS: 25, ThoroughS: 600, Checks: 10, Quota: 3},
	"C10": {Level: "fault_enumeration", QuickS: 30, ThoroughS: 900, NeedsB: true, Checks: 10, Quota: 1},
	"C11": {Level: "exploration", QuickS: 25, ThoroughS: 600, Checks: 10, Quota: 3},
	"C13": {Level: "exploration", QuickS: 25, ThoroughS: 600, NeedsB: true, Checks: 5, Quota: 2},
	"C14": {Level: "exploration", QuickS: 25, ThoroughS: 600, Quota: 3},
	"C15": {Level: "exploration", QuickS: 20, ThoroughS: 600, Quota: 4},
	"C16": {Level: "exploration", QuickS: 20, ThoroughS: 600, Quota: 7},
	"C17": {Level: "exploration", QuickS: 40, ThoroughS: 900, NeedsB: true, NeedsRace: true, Checks: 3, Quota: 2},
	"C18": {Level: "exploration", QuickS: 25, ThoroughS: 600, Quota: 13},
	"C19": {Level: "exploration", QuickS: 20, ThoroughS: 600, Checks: 10, Quota: 2},
	// self tests (not properties)
	"determinism": {Level: "other", QuickS: 20, ThoroughS: 120, Quota: 1},
	"conformance": {Level: "other", QuickS: 20, ThoroughS: 120, Quota: 3},
}

var (
	fProp    = flag.String("property", "", "property id")
	fTier    = flag.String("tier", "", "quick|thorough (default: $VERIF_TIER or quick)")
	fReplay  = flag.String("replay", "", "replay a scenario file")
	fWorkers = flag.Int("workers", 0, "number of worker processes (default: min(16, NumCPU))")
	fBudget  = flag.Int("budget", 0, "search budget in seconds (default per tier; $VERIF_BUDGET_S overrides)")
	fKeep    = flag.Bool("keep", false, "keep the build directory")
)

func home() string {
	if h := os.Getenv("VERIF_HOME"); h != "" {
		return h
	}
	return "/verif"
}

func repo() string {
	if h := os.Getenv("VERIF_REPO"); h != "" {
		return h
	}
	return "/repo"
}

func trouble(format string, a ...interface{}) {
	fmt.Printf("TROUBLE: "+format+"\n", a...)
	exit(2)
}

// scratchDir: where the workers of this run materialise repositories (tmpfs
// when there is one). Removed on every way out, so that a worker killed by a
// watchdog leaves nothing behind.
var scratchDir string

func exit(code int) {
	if scratchDir != "" {
		os.RemoveAll(scratchDir)
	}
	os.Exit(code)
}

func makeScratch() string {
	base := os.TempDir()
	if st, err := os.Stat("/dev/shm"); err == nil && st.IsDir() {
		base = "/dev/shm"
	}
	d, err := os.MkdirTemp(base, "vsimrun-")
	if err != nil {
		d, err = os.MkdirTemp("", "vsimrun-")
		if err != nil {
			return ""
		}
	}
	return d
}

func splitmix64(x uint64) uint64 {
	x += 0x9e3779b97f4a7c15
	z := x
	z = (z ^ (z >> 30)) * 0xbf58476d1ce4e5b9
	z = (z ^ (z >> 27)) * 0x94d049bb133111eb
	return z ^ (z >> 31)
}

func baseEnv(bdir string) []string {
	env := []string{}
	for _, kv := range os.Environ() {
		if strings.HasPrefix(kv, "GIT_") || strings.HasPrefix(kv, "GOFLAGS=") || strings.HasPrefix(kv, "RAPID_") {
			continue
		}
		env = append(env, kv)
	}
	return env
}

func realGit() string {
	for _, d := range filepath.SplitList(os.Getenv("PATH")) {
		if strings.Contains(d, "shimdir") {
			continue
		}
		p := filepath.Join(d, "git")
		if st, err := os.Stat(p); err == nil && !st.IsDir() && st.Mode()&0o111 != 0 {
			return p
		}
	}
	trouble("git not found on PATH")
	return ""
}

func run(dir string, env []string, logw io.Writer, name string, args ...string) error {
	cmd := exec.Command(name, args...)
	cmd.Dir = dir
	cmd.Env = env
	cmd.Stdout = logw
	cmd.Stderr = logw
	return cmd.Run()
}

// build compiles everything the property needs from the current tree.
func build(bdir string, info propInfo, prop string) (simBin string, env []string) {
	os.MkdirAll(bdir, 0o755)
	env = baseEnv(bdir)
	goenv := append(append([]string(nil), env...), "GOFLAGS=-mod=mod", "GOPROXY=off", "GOSUMDB=off", "GOTOOLCHAIN=local", "VERIF_HOME="+home(), "VERIF_REPO="+repo(), "VERIF_BUILD="+bdir)
	logf, _ := os.Create(filepath.Join(bdir, "build.log"))
	defer logf.Close()
	simBin = filepath.Join(bdir, "sim.test")
	race := ""
	if info.NeedsRace {
		race = "race"
	}
	if err := run(home(), goenv, logf, filepath.Join(home(), "buildsim.sh"), simBin, race); err != nil {
		b, _ := os.ReadFile(filepath.Join(bdir, "build.log"))
		fmt.Printf("%s\n", b)
		trouble("building the simulation binary from %s failed: %v", repo(), err)
	}
	// the git proxy
	shimdir := filepath.Join(bdir, "shimdir")
	os.MkdirAll(shimdir, 0o755)
	shimSrc := filepath.Join(home(), "bin", "gitshim")
	if _, err := os.Stat(shimSrc); err != nil {
		trouble("%s missing: run MANIFEST.setup_cmd first", shimSrc)
	}
	os.Remove(filepath.Join(shimdir, "git"))
	if err := os.Symlink(shimSrc, filepath.Join(shimdir, "git")); err != nil {
		trouble("symlink shim: %v", err)
	}
	rg := realGit()
	env = append(env, "VERIF_REAL_GIT="+rg, "VERIF_HOME="+home(), "VERIF_SHIMDIR="+shimdir)
	for i, kv := range env {
		if strings.HasPrefix(kv, "PATH=") {
			env[i] = "PATH=" + shimdir + string(os.PathListSeparator) + kv[5:]
		}
	}
	if info.NeedsB {
		// engine B: the real binary, default toolchain, shipped go.mod
		bin := filepath.Join(bdir, "git-sizer")
		benv := append(append([]string(nil), baseEnv(bdir)...), "GOFLAGS=-mod=mod", "GOPROXY=off", "GOSUMDB=off")
		if err := run(repo(), benv, logf, "go", "build", "-o", bin, "."); err != nil {
			b, _ := os.ReadFile(filepath.Join(bdir, "build.log"))
			fmt.Printf("%s\n", b)
			trouble("building git-sizer failed: %v", err)
		}
		env = append(env, "VERIF_GITSIZER_BIN="+bin)
		if info.NeedsRace {
			rbin := filepath.Join(bdir, "git-sizer-race")
			if err := run(repo(), benv, logf, "go", "build", "-race", "-o", rbin, "."); err != nil {
				b, _ := os.ReadFile(filepath.Join(bdir, "build.log"))
				fmt.Printf("%s\n", b)
				trouble("building git-sizer -race failed: %v", err)
			}
			env = append(env, "VERIF_GITSIZER_RACE_BIN="+rbin)
		}
	}
	return simBin, env
}

// workerCeiling is the wall-clock ceiling of the quota part (added to the
// hard limit after which a worker is killed).
var workerCeiling time.Duration

type workerResult struct {
	idx   int
	code  int
	out   string
	stats *stats // the part in progress when the worker ended: the continuation if quota is set, else the (unfinished) quota part
	quota *stats // the completed quota part (stats_quota.json), if the worker got that far
}

func runWorker(simBin string, env []string, prop, tier string, seed uint64, idx, n int, budget time.Duration, out string, extra ...string) workerResult {
	os.MkdirAll(out, 0o755)
	logf, _ := os.Create(filepath.Join(out, "log"))
	defer logf.Close()
	args := []string{"-test.run", "^TestVerifSim$", "-test.cpu", "1", "-test.timeout", "0", "-rapid.nofailfile", "-rapid.shrinktime=15s",
		"-verif.property=" + prop, "-verif.tier=" + tier, "-verif.seed=" + strconv.FormatUint(seed, 10),
		"-verif.worker=" + strconv.Itoa(idx), "-verif.workers=" + strconv.Itoa(n),
		"-verif.budget=" + budget.String(), "-verif.out=" + out}
	args = append(args, extra...)
	cmd := exec.Command(simBin, args...)
	cmd.Dir = out
	cmd.Env = append(append([]string(nil), env...), "GORACE=log_path="+filepath.Join(out, "race")+" halt_on_error=0")
	cmd.Stdout = logf
	cmd.Stderr = logf
	done := make(chan error, 1)
	if err := cmd.Start(); err != nil {
		return workerResult{idx: idx, code: -1, out: out}
	}
	go func() { done <- cmd.Wait() }()
	var err error
	// livelock watch: while an in-process run is under way the worker keeps
	// <out>/current.json.running; a run that lasts longer than the limit in real
	// time, without the fake-time watchdog having fired, has a goroutine that
	// spins without ever blocking. current.json holds its scenario.
	limit := 150 * time.Second
	if v, perr := time.ParseDuration(os.Getenv("VERIF_LIVELOCK_LIMIT")); perr == nil && v > 0 {
		limit = v
	}
	hard := time.After(budget*3 + 10*time.Minute + workerCeiling)
	tick := time.NewTicker(2 * time.Second)
	defer tick.Stop()
wait:
	for {
		select {
		case err = <-done:
			break wait
		case <-tick.C:
			if fi, serr := os.Stat(filepath.Join(out, "current.json.running")); serr == nil && time.Since(fi.ModTime()) > limit {
				cmd.Process.Kill()
				<-done
				return workerResult{idx: idx, code: -3, out: out}
			}
		case <-hard:
			cmd.Process.Kill()
			<-done
			return workerResult{idx: idx, code: -2, out: out}
		}
	}
	wr := workerResult{idx: idx, out: out}
	if err != nil {
		if ee, ok := err.(*exec.ExitError); ok {
			wr.code = ee.ExitCode()
		} else {
			wr.code = -1
		}
	}
	if b, err := os.ReadFile(filepath.Join(out, "stats.json")); err == nil {
		var st stats
		if json.Unmarshal(b, &st) == nil {
			wr.stats = &st
		}
	}
	if b, err := os.ReadFile(filepath.Join(out, "stats_quota.json")); err == nil {
		var st stats
		if json.Unmarshal(b, &st) == nil {
			wr.quota = &st
		}
	}
	return wr
}

// replay runs a scenario in a fresh process and returns the class found
// ("" if clean), whether it crashed, and the output.
func replay(simBin string, env []string, prop, tier, path, out string) (class string, crashed bool, log string) {
	wr := runWorker(simBin, env, prop, tier, 1, 0, 1, 5*time.Minute, out, "-verif.replay="+path)
	b, _ := os.ReadFile(filepath.Join(out, "log"))
	log = string(b)
	if wr.code == -3 {
		return prop + "/hang", false, log + "\n(livelock: the run did not finish in real time and fake time never reached the watchdog)"
	}
	for _, l := range strings.Split(log, "\n") {
		if strings.HasPrefix(l, "REPLAY-VIOLATION ") {
			return strings.TrimPrefix(l, "REPLAY-VIOLATION "), false, log
		}
		if strings.HasPrefix(l, "REPLAY-KNOWN ") {
			return "", false, log
		}
	}
	if strings.Contains(log, "REPLAY-CLEAN") {
		return "", false, log
	}
	if wr.code == 2 {
		return "", true, log
	}
	return "", false, log
}

func copyFile(src, dst string) error {
	b, err := os.ReadFile(src)
	if err != nil {
		return err
	}
	os.MkdirAll(filepath.Dir(dst), 0o755)
	return os.WriteFile(dst, b, 0o644)
}

func main() {
	flag.Parse()
	prop := *fProp
	info, ok := props[prop]
	if !ok {
		trouble("unknown property %q", prop)
	}
	tier := *fTier
	if tier == "" {
		tier = os.Getenv("VERIF_TIER")
	}
	if tier != "thorough" {
		tier = "quick"
	}
	seed := uint64(1)
	if s := os.Getenv("VERIF_SEED"); s != "" {
		if v, err := strconv.ParseInt(s, 10, 64); err == nil {
			seed = uint64(v)
		} else if u, err := strconv.ParseUint(s, 10, 64); err == nil {
			seed = u
		}
	}
	budgetS := info.QuickS
	if tier == "thorough" {
		budgetS = info.ThoroughS
	}
	if s := os.Getenv("VERIF_BUDGET_S"); s != "" {
		if v, err := strconv.Atoi(s); err == nil && v > 0 {
			budgetS = v
		}
	}
	if *fBudget > 0 {
		budgetS = *fBudget
	}
	nw := *fWorkers
	if nw <= 0 {
		nw = runtime.NumCPU()
		if nw > 16 {
			nw = 16
		}
	}

	start := time.Now()
	bdir := filepath.Join(home(), ".build", fmt.Sprintf("%s-%d", prop, os.Getpid()))
	if !*fKeep {
		defer os.RemoveAll(bdir)
	}
	scratchDir = makeScratch()
	defer os.RemoveAll(scratchDir)
	simBin, env := build(bdir, info, prop)
	if scratchDir != "" {
		env = append(env, "VERIF_SCRATCH="+scratchDir)
	}
	buildS := time.Since(start).Seconds()

	if *fReplay != "" {
		path, _ := filepath.Abs(*fReplay)
		class, crashed, log := replay(simBin, env, prop, tier, path, filepath.Join(bdir, "replay"))
		switch {
		case crashed:
			fmt.Printf("%s\n", tail(log, 60))
			fmt.Printf("VIOLATION property=%s replay=%s\n", prop, path)
			os.RemoveAll(bdir)
			exit(1)
		case class != "":
			fmt.Printf("%s\n", tail(log, 30))
			fmt.Printf("VIOLATION property=%s replay=%s\n", prop, path)
			os.RemoveAll(bdir)
			exit(1)
		}
		fmt.Printf("replay clean: %s\n", path)
		return
	}

	if prop == "determinism" {
		determinism(simBin, env, bdir, tier, seed)
		return
	}
	quota, quotaCap := quotaFor(info, tier, budgetS)
	fmt.Printf("simcheck property=%s tier=%s seed=%d workers=%d quota=%d batches/worker budget=%ds (build %.1fs)\n", prop, tier, seed, nw, quota, budgetS, buildS)
	searchStart := time.Now()
	workerCeiling = quotaCap
	results := make([]workerResult, nw)
	{
		var wg sync.WaitGroup
		for i := 0; i < nw; i++ {
			wg.Add(1)
			go func(i int) {
				defer wg.Done()
				ws := splitmix64(seed*0x9e3779b1 + uint64(i))
				extra := []string{fmt.Sprintf("-verif.quota=%d", quota), "-verif.ceiling=" + quotaCap.String()}
				if info.Checks > 0 {
					extra = append(extra, fmt.Sprintf("-verif.checks=%d", info.Checks))
				}
				results[i] = runWorker(simBin, env, prop, tier, ws, i, nw, time.Duration(budgetS)*time.Second, filepath.Join(bdir, fmt.Sprintf("w%d", i)), extra...)
			}(i)
		}
		wg.Wait()
	}

	type cand struct {
		file  string
		class string
	}
	var cands []cand
	hard := []string{}
	var seeds []uint64
	newAgg := func() *stats {
		return &stats{Nontrivial: map[string]bool{}, Sigs: map[string]bool{}, FaultsFired: map[string]int{}, Probes: map[string]int{},
			Conformance: map[string]int{}, Known: map[string]int{}, KnownNotes: map[string]string{}, Exhaustive: map[string]bool{}, Extra: map[string]float64{}}
	}
	add := func(agg, s *stats) {
		agg.Rule, agg.Components = s.Rule, s.Components
		agg.Batches += s.Batches
		agg.Evaluations += s.Evaluations
		agg.CLIRuns += s.CLIRuns
		agg.SimNS += s.SimNS
		for k := range s.Nontrivial {
			agg.Nontrivial[k] = true
		}
		for k := range s.Sigs {
			agg.Sigs[k] = true
		}
		for k, v := range s.FaultsFired {
			agg.FaultsFired[k] += v
		}
		for k, v := range s.Probes {
			agg.Probes[k] += v
		}
		for k, v := range s.Conformance {
			agg.Conformance[k] += v
		}
		for k, v := range s.Known {
			agg.Known[k] += v
		}
		for k, v := range s.KnownNotes {
			if _, ok := agg.KnownNotes[k]; !ok {
				agg.KnownNotes[k] = v
			}
		}
		for k, v := range s.Extra {
			agg.Extra[k] += v
		}
		for k, v := range s.Exhaustive {
			agg.Exhaustive[k] = v
		}
		if len(agg.Samples) < 4 && len(s.Samples) > 0 {
			agg.Samples = append(agg.Samples, s.Samples[0])
		}
		agg.Trouble = append(agg.Trouble, s.Trouble...)
		for _, v := range s.Violations {
			cands = append(cands, cand{v.File, v.Class})
		}
	}

	// The quota part of a worker is stats_quota.json when it completed the quota
	// (what it did afterwards, the continuation, is then in stats.json), and
	// stats.json when it did not (ceiling reached, or something found).
	agg := newAgg()
	beyond := newAgg()
	quotaDone := true
	quotaWall := 0.0
	for _, r := range results {
		if r.stats == nil {
			quotaDone = false
			// crashed before writing stats?
			cur := filepath.Join(r.out, "current.json")
			if _, err := os.Stat(cur); err == nil && r.code == -3 {
				// livelock: the scenario under way is the violation
				cands = append(cands, cand{cur, prop + "/hang"})
			} else if err == nil && r.code == 2 {
				cands = append(cands, cand{cur, prop + "/crash"})
			} else {
				hard = append(hard, fmt.Sprintf("worker %d exited %d without stats (see %s/log)", r.idx, r.code, r.out))
			}
			if r.quota != nil {
				add(agg, r.quota)
			}
			continue
		}
		seeds = append(seeds, r.stats.Seed)
		nviol := len(r.stats.Violations)
		if r.quota != nil {
			add(agg, r.quota)
			add(beyond, r.stats)
			if r.quota.WallS > quotaWall {
				quotaWall = r.quota.WallS
			}
		} else {
			add(agg, r.stats)
			quotaDone = false
			if r.stats.WallS > quotaWall {
				quotaWall = r.stats.WallS
			}
		}
		if r.code == -3 {
			// livelock: the scenario under way is the violation
			cands = append(cands, cand{filepath.Join(r.out, "current.json"), prop + "/hang"})
		} else if r.code != 0 && nviol == 0 {
			cur := filepath.Join(r.out, "current.json")
			// a Go panic or fatal error exits with status 2; a worker killed from
			// outside (signal) is trouble with the machinery, not a crash of the code under test
			if _, err := os.Stat(cur); err == nil && r.code == 2 {
				cands = append(cands, cand{cur, prop + "/crash"})
			} else {
				hard = append(hard, fmt.Sprintf("worker %d exited %d without a recorded violation (see log)", r.idx, r.code))
				if b, err := os.ReadFile(filepath.Join(r.out, "log")); err == nil {
					fmt.Printf("---- worker %d log tail ----\n%s\n", r.idx, tail(string(b), 40))
				}
			}
		}
	}
	// known findings met and notes: both parts
	for k, v := range beyond.Known {
		agg.Known[k] += v
	}
	for k, v := range beyond.KnownNotes {
		if _, ok := agg.KnownNotes[k]; !ok {
			agg.KnownNotes[k] = v
		}
	}
	agg.Trouble = append(agg.Trouble, beyond.Trouble...)
	beyondBudget := float64(budgetS) - quotaWall
	if beyond.Batches == 0 {
		beyond = nil
		beyondBudget = 0
	}

	// confirm violations by replay in a fresh process
	violations := 0
	seenClass := map[string]bool{}
	var vioLines []string
	for i, cd := range cands {
		if seenClass[cd.class] && i > 3 {
			continue // one confirmed replay per class is enough
		}
		dst := filepath.Join(home(), "replays", fmt.Sprintf("%s-%s-%d.json", prop, sanitize(cd.class), time.Now().UnixNano()%1e9))
		if err := copyFile(cd.file, dst); err != nil {
			hard = append(hard, "cannot save replay: "+err.Error())
			continue
		}
		class, crashed, log := replay(simBin, env, prop, tier, dst, filepath.Join(bdir, fmt.Sprintf("replay%d", i)))
		switch {
		case crashed && strings.HasSuffix(cd.class, "/crash"):
			fmt.Printf("---- crash replay log tail ----\n%s\n", tail(log, 50))
		case class == cd.class:
		case class != "" && strings.HasSuffix(cd.class, "/crash"):
		default:
			hard = append(hard, fmt.Sprintf("violation %s from %s did not reproduce on replay (got %q, crashed=%v): treated as harness trouble", cd.class, cd.file, class, crashed))
			os.Remove(dst)
			continue
		}
		if !seenClass[cd.class] {
			fmt.Printf("violation class: %s\n", cd.class)
			if b, err := os.ReadFile(dst); err == nil {
				var sc struct {
					Expect struct{ Detail string } `json:"expect"`
				}
				json.Unmarshal(b, &sc)
				if sc.Expect.Detail != "" {
					fmt.Printf("  detail: %s\n", firstN(sc.Expect.Detail, 600))
				}
			}
		}
		seenClass[cd.class] = true
		violations++
		vioLines = append(vioLines, fmt.Sprintf("VIOLATION property=%s replay=%s", prop, dst))
	}

	// known findings
	var known []knownFinding
	if b, err := os.ReadFile(filepath.Join(home(), "known_findings.json")); err == nil {
		json.Unmarshal(b, &known)
	}
	for _, kf := range known {
		if kf.Property == prop && kf.Status == "known" {
			fmt.Printf("KNOWN-FINDING: property=%s %s [%s] (met %d times in this run)\n", prop, kf.Shape, kf.ID, agg.Known[kf.ID])
		}
	}

	wall := time.Since(start).Seconds()
	searchWall := time.Since(searchStart).Seconds()
	qi := quotaInfo{Batches: quota, Done: quotaDone, WallS: quotaWall, CeilingS: quotaCap.Seconds(), Beyond: beyond, BeyondBudgetS: beyondBudget, SearchWallS: searchWall}
	writeEvidence(prop, tier, seed, info, agg, seeds, violations, wall, float64(budgetS), nw, hard, qi)

	fmt.Printf("quota part (%d batches/worker, complete=%v, %.1fs): evaluations=%d cli_runs=%d distinct_nontrivial=%d interleavings=%d sim_time=%.1fs faults=%v probes=%v\n",
		quota, quotaDone, quotaWall, agg.Evaluations, agg.CLIRuns, len(agg.Nontrivial), len(agg.Sigs), float64(agg.SimNS)/1e9, agg.FaultsFired, agg.Probes)
	if beyond != nil {
		fmt.Printf("continuation (each worker's rest of the time budget; %.1fs for the slowest): evaluations=%d cli_runs=%d distinct_nontrivial=%d interleavings=%d sim_time=%.1fs faults=%v\n",
			beyondBudget, beyond.Evaluations, beyond.CLIRuns, len(beyond.Nontrivial), len(beyond.Sigs), float64(beyond.SimNS)/1e9, beyond.FaultsFired)
	} else {
		fmt.Printf("continuation: not run (the quota part used up the time budget, or it found something)\n")
	}
	fmt.Printf("wall=%.1fs\n", wall)
	if len(agg.Trouble) > 0 {
		fmt.Printf("notes (%d), first: %s\n", len(agg.Trouble), firstN(agg.Trouble[0], 300))
	}
	for _, l := range vioLines {
		fmt.Println(l)
	}
	if violations > 0 {
		if !*fKeep {
			os.RemoveAll(bdir)
		}
		exit(1)
	}
	if len(hard) > 0 {
		for _, h := range hard {
			fmt.Printf("TROUBLE: %s\n", h)
		}
		if !*fKeep {
			os.RemoveAll(bdir)
		}
		exit(2)
	}
	if agg.Evaluations == 0 {
		if !*fKeep {
			os.RemoveAll(bdir)
		}
		trouble("no evaluations were performed")
	}
}

func sanitize(s string) string {
	return strings.Map(func(r rune) rune {
		if (r >= 'a' && r <= 'z') || (r >= 'A' && r <= 'Z') || (r >= '0' && r <= '9') || r == '-' || r == '_' {
			return r
		}
		return '_'
	}, s)
}

func tail(s string, n int) string {
	ls := strings.Split(strings.TrimRight(s, "\n"), "\n")
	var keep []string
	for _, l := range ls {
		if strings.HasPrefix(l, "Flag --") && strings.Contains(l, "deprecated") {
			continue
		}
		keep = append(keep, l)
	}
	if len(keep) > n {
		keep = keep[len(keep)-n:]
	}
	return strings.Join(keep, "\n")
}

func firstN(s string, n int) string {
	if len(s) > n {
		return s[:n] + "..."
	}
	return s
}

// quotaFor returns how many rapid batches every worker always runs and the
// wall-clock ceiling of that part. The quota is sized so that it takes about
// a quarter of the tier's time budget on the 16-core sandbox the checks were
// developed on; a machine (or a moment) ten times slower still completes it.
func quotaFor(info propInfo, tier string, budgetS int) (int, time.Duration) {
	q := info.Quota
	if q <= 0 {
		q = 1
	}
	if s := os.Getenv("VERIF_QUOTA"); s != "" {
		if v, err := strconv.Atoi(s); err == nil && v > 0 {
			q = v
		}
	}
	if tier == "thorough" {
		return q * 8, time.Duration(3*budgetS) * time.Second
	}
	ceiling := 10 * budgetS
	if ceiling < 300 {
		ceiling = 300
	}
	return q, time.Duration(ceiling) * time.Second
}

type quotaInfo struct {
	Batches       int
	Done          bool
	WallS         float64
	CeilingS      float64
	Beyond        *stats
	BeyondBudgetS float64
	SearchWallS   float64
}

func writeEvidence(prop, tier string, seed uint64, info propInfo, agg *stats, seeds []uint64, violations int, wall, budget float64, nw int, hard []string, qi quotaInfo) {
	samples := []interface{}{}
	for _, s := range agg.Samples {
		var v interface{}
		if json.Unmarshal(s, &v) == nil {
			samples = append(samples, v)
		}
	}
	if len(samples) == 0 {
		samples = append(samples, "no sample recorded")
	}
	sort.Slice(seeds, func(i, j int) bool { return seeds[i] < seeds[j] })
	// rates: everything this run evaluated (quota part and continuation) over
	// the wall-clock time of the search; they depend on the machine
	allEvals, allBatches := agg.Evaluations, agg.Batches
	if qi.Beyond != nil {
		allEvals += qi.Beyond.Evaluations
		allBatches += qi.Beyond.Batches
	}
	perHour, seedsPerHour := 0.0, 0.0
	if qi.SearchWallS > 0 {
		perHour = float64(allEvals) / qi.SearchWallS * 3600
		seedsPerHour = float64(allBatches) / qi.SearchWallS * 3600
	}
	beyond := map[string]interface{}{
		"ran":    false,
		"reason": "in every worker the quota part used up the time budget (or found something)",
	}
	if qi.Beyond != nil {
		b := qi.Beyond
		beyond = map[string]interface{}{
			"ran":                                true,
			"how_long":                           "every worker goes on after its quota until the time budget, counted from its own start, is used up",
			"time_left_for_the_slowest_worker_s": qi.BeyondBudgetS,
			"rapid_batches":                      b.Batches,
			"evaluations":                        b.Evaluations,
			"cli_runs":                           b.CLIRuns,
			"distinct_nontrivial":                len(b.Nontrivial),
			"distinct_interleavings":             len(b.Sigs),
			"simulated_time_s":                   float64(b.SimNS) / 1e9,
			"faults_fired":                       b.FaultsFired,
			"probes":                             b.Probes,
			"conformance":                        b.Conformance,
			"extra":                              b.Extra,
		}
	}
	cov := map[string]interface{}{
		"evaluations":         agg.Evaluations,
		"distinct_nontrivial": len(agg.Nontrivial),
		"rule":                agg.Rule,
		"samples":             samples,
		"cli_runs":            agg.CLIRuns,
		"runs_per_hour":       int64(perHour),
		"seeds_per_hour":      int64(seedsPerHour),
		"rates_note":          "runs_per_hour and seeds_per_hour are measured over the quota part and the continuation together, on this machine",
		"time_budget_s":       budget,
		"quota": map[string]interface{}{
			"rapid_batches_per_worker": qi.Batches,
			"completed":                qi.Done,
			"wall_s_slowest_worker":    qi.WallS,
			"ceiling_s":                qi.CeilingS,
			"note":                     "evaluations, distinct_nontrivial, cli_runs, rapid_batches, simulated_time_s, distinct_interleavings, faults_fired, probes, conformance and extra above count the quota part only: a fixed number of rapid batches per worker whose seeds derive from (VERIF_SEED, worker, batch index), so the same scenarios are explored on a fast and on a slow machine (wall-clock entries in extra excepted). What the rest of the time budget added on this machine is under beyond_quota.",
		},
		"beyond_quota":           beyond,
		"seed_note":              "one seed = one rapid batch seed derived from (VERIF_SEED, worker, batch); rapid_batches of them were explored, each an exactly repeatable sequence of scenarios",
		"worker_seeds":           seeds,
		"rapid_batches":          agg.Batches,
		"workers":                nw,
		"simulated_time_s":       float64(agg.SimNS) / 1e9,
		"faults_fired":           agg.FaultsFired,
		"distinct_interleavings": len(agg.Sigs),
		"interleaving_measure":   "distinct SHA-256 of the (actor, event) sequence at the simulated boundary",
		"probes":                 agg.Probes,
		"conformance":            agg.Conformance,
		"components":             agg.Components,
		"known_findings_met":     agg.Known,
		"notes":                  firstStrings(agg.Trouble, 5),
		"machinery_trouble":      hard,
		"extra":                  agg.Extra,
	}
	if len(agg.Exhaustive) > 0 {
		cov["exhaustive_parts"] = agg.Exhaustive
	}
	sseed := int64(seed)
	ev := map[string]interface{}{
		"property_id": prop,
		"tier":        tier,
		"seed":        sseed,
		"level":       info.Level,
		"coverage":    cov,
		"assumptions": append(append([]string(nil), commonAssumptions...), info.Assumptions...),
		"wall_s":      wall,
		"violations":  violations,
	}
	if info.Level == "other" {
		cov["explanation"] = "self-test of the simulator, not a property check"
	}
	b, _ := json.MarshalIndent(ev, "", " ")
	dir := filepath.Join(home(), "evidence")
	if repo() != "/repo" {
		// a run against another tree (sensitivity / seeded changes) must not
		// overwrite the evidence of the real repository
		dir = filepath.Join(home(), ".build", "evidence-other-tree")
	}
	os.MkdirAll(dir, 0o755)
	name := prop + ".json"
	if info.Level == "other" {
		name = "selftest-" + prop + ".json"
	}
	os.WriteFile(filepath.Join(dir, name), b, 0o644)
}

func firstStrings(xs []string, n int) []string {
	if len(xs) > n {
		return xs[:n]
	}
	return xs
}

// determinism: the same worker seed must give the same event logs and
// outputs in fresh processes at GOMAXPROCS 1, 4 and 16.
func determinism(simBin string, env []string, bdir, tier string, seed uint64) {
	targets := strings.Fields(os.Getenv("VERIF_DETERMINISM_TARGETS"))
	if len(targets) == 0 {
		targets = []string{"C01", "C04", "C10", "C18"}
	}
	nseeds := 4
	if tier == "thorough" {
		nseeds = 12
	}
	type job struct {
		target string
		seed   uint64
		cpu    string
		rep    int
	}
	var jobs []job
	for _, t := range targets {
		for s := 0; s < nseeds; s++ {
			for _, cpu := range []string{"1", "4", "16"} {
				for rep := 0; rep < 2; rep++ {
					jobs = append(jobs, job{t, splitmix64(seed + uint64(s)*977), cpu, rep})
				}
			}
		}
	}
	out := make([]string, len(jobs))
	par := 16
	if v, err := strconv.Atoi(os.Getenv("VERIF_DETERMINISM_PAR")); err == nil && v > 0 {
		par = v
	}
	sem := make(chan struct{}, par)
	var wg sync.WaitGroup
	for i, j := range jobs {
		wg.Add(1)
		sem <- struct{}{}
		go func(i int, j job) {
			defer wg.Done()
			defer func() { <-sem }()
			dir := filepath.Join(bdir, fmt.Sprintf("d%d", i))
			os.MkdirAll(dir, 0o755)
			dig := filepath.Join(dir, "digests.txt")
			logf, _ := os.Create(filepath.Join(dir, "log"))
			cmd := exec.Command(simBin, "-test.run", "^TestVerifSim$", "-test.cpu", j.cpu, "-test.timeout", "0", "-rapid.nofailfile",
				"-verif.property="+j.target, "-verif.tier=quick", "-verif.seed="+strconv.FormatUint(j.seed, 10), "-verif.budget=10m",
				"-verif.maxbatches=2", "-verif.checks=20", "-verif.out="+dir, "-verif.digests="+dig)
			cmd.Dir = dir
			cmd.Env = env
			cmd.Stdout, cmd.Stderr = logf, logf
			cmd.Run()
			logf.Close()
			b, _ := os.ReadFile(dig)
			out[i] = string(b)
		}(i, j)
	}
	wg.Wait()
	groups := map[string][]int{}
	for i, j := range jobs {
		k := fmt.Sprintf("%s/%d", j.target, j.seed)
		groups[k] = append(groups[k], i)
	}
	bad := 0
	runs := 0
	for k, idx := range groups {
		ref := out[idx[0]]
		runs += strings.Count(ref, "\n")
		if ref == "" {
			fmt.Printf("TROUBLE: determinism: no digests for %s\n", k)
			bad++
			continue
		}
		for _, i := range idx[1:] {
			if out[i] != ref {
				a, b := strings.Split(ref, "\n"), strings.Split(out[i], "\n")
				nd := 0
				first := ""
				for x := 0; x < len(a) && x < len(b); x++ {
					if a[x] != b[x] {
						nd++
						if first == "" {
							first = fmt.Sprintf("run %d: %q vs %q", x, a[x], b[x])
						}
					}
				}
				fmt.Printf("NONDETERMINISM: %s: GOMAXPROCS=%s rep=%d differs from GOMAXPROCS=%s rep=%d in %d of %d runs; first: %s\n", k, jobs[i].cpu, jobs[i].rep, jobs[idx[0]].cpu, jobs[idx[0]].rep, nd, len(a), first)
				bad++
			}
		}
	}
	fmt.Printf("determinism: %d (target, seed) groups x 6 fresh processes, %d simulated runs per configuration compared, %d of %d comparisons differ\n", len(groups), runs, bad, len(groups)*5)
	ev := map[string]interface{}{
		"property_id": "determinism", "tier": tier, "seed": int64(seed), "level": "other", "wall_s": 0.0,
		"coverage": map[string]interface{}{"explanation": "self-test: same seed, fresh processes, GOMAXPROCS 1/4/16, two repetitions each; digests of event logs (with fake timestamps), stdout and stderr compared",
			"groups": len(groups), "comparisons": len(groups) * 5, "runs_compared_per_configuration": runs, "differing_comparisons": bad, "targets": targets,
			"note": "a self-test of the machinery, not a property: a differing comparison means that one fresh process ordered the events of at least one run differently; verdicts never depend on event order, and a violation that does not reproduce in its replay process is reported as trouble"},
		"violations": 0,
	}
	b, _ := json.MarshalIndent(ev, "", " ")
	os.MkdirAll(filepath.Join(home(), "evidence"), 0o755)
	os.WriteFile(filepath.Join(home(), "evidence", "selftest-determinism.json"), b, 0o644)
	if bad > 0 {
		exit(2)
	}
}
