#!/bin/bash
# Build the engine-A test binary from /repo's current working tree.
# usage: buildsim.sh <out> [race]
set -e
export GOFLAGS=-mod=mod GOPROXY=off GOSUMDB=off GOTOOLCHAIN=local
V=${VERIF_HOME:-/verif}
R=${VERIF_REPO:-/repo}
B=${VERIF_BUILD:-$V/.build}
mkdir -p $B/mod
rm -rf $B/src && mkdir -p $B/src && cp -r $V/sim $B/src/sim && cp -r $V/glue $B/src/glue
V_SRC=$B/src
cp $R/go.mod $B/mod/go.mod
cp $R/go.sum $B/mod/go.sum
cat >> $B/mod/go.mod <<EOM

require verif/sim v0.0.0
require pgregory.net/rapid v1.3.0
replace verif/sim => $V_SRC/sim
replace github.com/github/go-pipe => $V_SRC/sim/third_party/go-pipe
EOM
# instrumented copies of git-sizer's own sources (yield points at locks, channel
# operations and goroutine starts), generated from the tree being checked
rm -rf $B/inst && mkdir -p $B/inst
if [ -x $V/bin/yieldinst ]; then
  $V/bin/yieldinst -repo $R -out $B/inst > $B/inst/overlay-part.json
else
  echo '{}' > $B/inst/overlay-part.json
fi
python3 - "$R" "$V_SRC" "$B" <<'PY'
import json,sys,glob,os
R,V,B=sys.argv[1:4]
rep=json.load(open(B+'/inst/overlay-part.json'))
for f in glob.glob(V+'/glue/*.go'):
    rep[R+'/'+os.path.basename(f)]=f
json.dump({"Replace":rep},open(B+'/overlay.json','w'),indent=1)
PY
RACE=""
[ "$2" = race ] && RACE="-race"
OUT=$(realpath -m "$1")
cd $R
go1.26.8 test -c $RACE -tags verif -overlay $B/overlay.json -modfile $B/mod/go.mod -o "$OUT" .
