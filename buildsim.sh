#!/bin/bash
# Build the engine-A test binary from /repo's current working tree.
# usage: buildsim.sh <out> [race]
set -e
export GOFLAGS=-mod=mod GOPROXY=off GOSUMDB=off GOTOOLCHAIN=local
V=${VERIF_HOME:-/verif}
R=${VERIF_REPO:-/repo}
B=${VERIF_BUILD:-$V/.build}
mkdir -p $B/mod
rm -rf $B/src && mkdir -p $B/src && cp -r $V/sim $B/src/sim && cp -r $V/glue $B/src/glue
V_SRC=$B/src
cp $R/go.mod $B/mod/go.mod
cp $R/go.sum $B/mod/go.sum
cat >> $B/mod/go.mod <<EOM

require verif/sim v0.0.0
require pgregory.net/rapid v1.3.0
replace verif/sim => $V_SRC/sim
replace github.com/github/go-pipe => $V_SRC/sim/third_party/go-pipe
EOM
{
  echo '{"Replace":{'
  first=1
  for f in $V_SRC/glue/*.go; do
    [ $first = 1 ] || echo ','
    first=0
    echo "\"$R/$(basename $f)\":\"$f\""
  done
  echo '}}'
} > $B/overlay.json
RACE=""
[ "$2" = race ] && RACE="-race"
OUT=$(realpath -m "$1")
cd $R
go1.26.8 test -c $RACE -tags verif -overlay $B/overlay.json -modfile $B/mod/go.mod -o "$OUT" .
