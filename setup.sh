#!/bin/bash
# MANIFEST.setup_cmd: build the driver and the git proxy (stdlib only, default toolchain, offline).
set -e
cd "$(dirname "$0")"
export GOFLAGS=-mod=mod GOPROXY=off GOSUMDB=off
mkdir -p bin
(cd cmd && go build -o ../bin/simcheck ./simcheck && go build -o ../bin/gitshim ./gitshim && go build -o ../bin/yieldinst ./yieldinst)
echo "setup ok"
